// C18 — resources merge with documented precedence; environment settings parse totally.
//
// Five sub-engines in one executable (all active per case; `--param engine=a,b,..` restricts):
//   readers   Get{Bool,Uint,Duration,Float,String}EnvironmentVariable + GetSdkDisabled via setenv()
//             in-process, errno preset to 0 / stale ERANGE / EINVAL, against an independent
//             three-valued parser (must-accept / must-default / don't-care).  Strings whose digit
//             run or unit conversion can overflow int64 are evaluated in a forked child so that a
//             sanitizer abort becomes an ordinary keyed violation and hides nothing else.
//   merge     Resource::Merge against a map model over all 15 OwnedAttributeValue alternatives.
//   detect    OTELResourceDetector::Detect against an independent parser of the key=value list.
//   create    Resource::Create in forked children (its detector result is cached in a function-local
//             static): precedence default < env < caller, always a service.name, never throws.
//   providers Tracer/Logger/MeterProvider built with an explicit Resource: what the harness
//             exporters / reader see is the provider's resource.
// The parent process never calls Resource::Create (directly or through a default argument), so a
// forked child always starts with the static detector cache uninitialised.
#include <cerrno>
#include <cfloat>
#include <charconv>
#include <poll.h>
#include <sys/wait.h>
#if defined(__SANITIZE_ADDRESS__)
#  include <dlfcn.h>
#  include <sanitizer/common_interface_defs.h>
#endif

#include "opentelemetry/logs/logger.h"
#include "opentelemetry/logs/severity.h"
#include "opentelemetry/metrics/meter.h"
#include "opentelemetry/metrics/sync_instruments.h"
#include "opentelemetry/sdk/common/attribute_utils.h"
#include "opentelemetry/sdk/common/disabled.h"
#include "opentelemetry/sdk/common/env_variables.h"
#include "opentelemetry/sdk/common/global_log_handler.h"
#include "opentelemetry/sdk/logs/exporter.h"
#include "opentelemetry/sdk/logs/logger_context.h"
#include "opentelemetry/sdk/logs/logger_provider.h"
#include "opentelemetry/sdk/logs/read_write_log_record.h"
#include "opentelemetry/sdk/logs/simple_log_record_processor.h"
#include "opentelemetry/sdk/metrics/export/metric_producer.h"
#include "opentelemetry/sdk/metrics/meter_context.h"
#include "opentelemetry/sdk/metrics/meter_provider.h"
#include "opentelemetry/sdk/metrics/metric_reader.h"
#include "opentelemetry/sdk/metrics/view/view_registry.h"
#include "opentelemetry/sdk/resource/resource.h"
#include "opentelemetry/sdk/resource/resource_detector.h"
#include "opentelemetry/sdk/trace/exporter.h"
#include "opentelemetry/sdk/trace/recordable.h"
#include "opentelemetry/sdk/trace/simple_processor.h"
#include "opentelemetry/sdk/trace/span_data.h"
#include "opentelemetry/sdk/trace/tracer_context.h"
#include "opentelemetry/sdk/trace/tracer_provider.h"
#include "opentelemetry/trace/tracer.h"
#include "opentelemetry/version.h"

#include "vf_core.h"

namespace nostd     = opentelemetry::nostd;
namespace sdkc      = opentelemetry::sdk::common;
namespace sdkr      = opentelemetry::sdk::resource;
namespace sdkt      = opentelemetry::sdk::trace;
namespace sdkl      = opentelemetry::sdk::logs;
namespace sdkm      = opentelemetry::sdk::metrics;
namespace trace_api = opentelemetry::trace;
namespace logs_api  = opentelemetry::logs;
using vf::Rng;
using Owned = sdkc::OwnedAttributeValue;
typedef std::map<std::string, Owned> Model;

static_assert(std::is_same<std::chrono::system_clock::duration::period, std::nano>::value,
              "the duration model assumes a nanosecond system_clock");

enum Tri
{
  kDefault  = 0,  // must fall back to the documented default
  kAccept   = 1,  // must return the exact value
  kDontCare = 2
};

// ------------------------------------------------------------------------------------------
// reporting that also works inside a forked child (records travel through a pipe)
// ------------------------------------------------------------------------------------------
static int g_child_fd = -1;

static void write_all(int fd, const std::string &o)
{
  size_t off = 0;
  while (off < o.size())
  {
    ssize_t n = write(fd, o.data() + off, o.size() - off);
    if (n <= 0)
    {
      if (n < 0 && errno == EINTR)
        continue;
      _exit(9);
    }
    off += static_cast<size_t>(n);
  }
}
static void put_str(std::string &o, const std::string &s)
{
  uint32_t n = static_cast<uint32_t>(s.size());
  o.append(reinterpret_cast<const char *>(&n), 4);
  o += s;
}
static void child_emit(char type, const std::string &a, const std::string &b, const std::string &c)
{
  std::string o(1, type);
  put_str(o, a);
  put_str(o, b);
  put_str(o, c);
  write_all(g_child_fd, o);
}
static void V(const std::string &assertion, const std::string &cls, const std::string &detail)
{
  if (g_child_fd >= 0)
    child_emit('V', assertion, cls, detail);
  else
    vf::report().violation(assertion, cls, detail);
}
static void C(const std::string &name, uint64_t n = 1)
{
  if (g_child_fd >= 0)
    child_emit('C', name, std::to_string(n), "");
  else
    vf::report().count(name, n);
}

struct ChildRec
{
  char type;
  std::string a, b, c;
};
struct ChildOut
{
  bool done = false;
  std::vector<ChildRec> recs;
  std::string err;
  int status = 0;
  std::string how() const
  {
    if (WIFEXITED(status))
      return "exit status " + std::to_string(WEXITSTATUS(status));
    if (WIFSIGNALED(status))
      return "signal " + std::to_string(WTERMSIG(status));
    return "status " + std::to_string(status);
  }
};

template <class F>
static ChildOut run_child(F &&body)
{
  int po[2], pe[2];
  if (pipe(po) != 0 || pipe(pe) != 0)
  {
    fprintf(stderr, "c18: pipe failed: %s\n", strerror(errno));
    exit(3);
  }
  fflush(nullptr);
  pid_t pid = fork();
  if (pid < 0)
  {
    fprintf(stderr, "c18: fork failed: %s\n", strerror(errno));
    exit(3);
  }
  if (pid == 0)
  {
    close(po[0]);
    close(pe[0]);
    dup2(pe[1], 2);
    close(pe[1]);
    g_child_fd = po[1];
    body();
    child_emit('D', "", "", "");
    _exit(0);
  }
  close(po[1]);
  close(pe[1]);
  ChildOut out;
  std::string raw;
  struct pollfd fds[2] = {{po[0], POLLIN, 0}, {pe[0], POLLIN, 0}};
  int open_fds         = 2;
  char buf[8192];
  while (open_fds > 0)
  {
    int pr = poll(fds, 2, -1);
    if (pr < 0)
    {
      if (errno == EINTR)
        continue;
      break;
    }
    for (int i = 0; i < 2; ++i)
    {
      if (fds[i].fd < 0 || !(fds[i].revents & (POLLIN | POLLHUP | POLLERR)))
        continue;
      ssize_t n = read(fds[i].fd, buf, sizeof buf);
      if (n > 0)
        (i == 0 ? raw : out.err).append(buf, static_cast<size_t>(n));
      else if (n == 0 || errno != EINTR)
      {
        close(fds[i].fd);
        fds[i].fd = -1;
        --open_fds;
      }
    }
  }
  while (waitpid(pid, &out.status, 0) < 0 && errno == EINTR)
    ;
  size_t p = 0;
  while (p < raw.size())
  {
    ChildRec rec;
    rec.type = raw[p++];
    std::string *f[3] = {&rec.a, &rec.b, &rec.c};
    bool ok           = true;
    for (auto *s : f)
    {
      if (p + 4 > raw.size())
      {
        ok = false;
        break;
      }
      uint32_t n;
      memcpy(&n, raw.data() + p, 4);
      p += 4;
      if (p + n > raw.size())
      {
        ok = false;
        break;
      }
      s->assign(raw, p, n);
      p += n;
    }
    if (!ok)
      break;
    if (rec.type == 'D')
      out.done = true;
    else
      out.recs.push_back(rec);
  }
  if (!(WIFEXITED(out.status) && WEXITSTATUS(out.status) == 0))
    out.done = false;
  return out;
}

// ------------------------------------------------------------------------------------------
// small helpers
// ------------------------------------------------------------------------------------------
static bool is_dg(char c)
{
  return c >= '0' && c <= '9';
}
static bool is_ws(char c)  // isspace() in the "C" locale
{
  return c == ' ' || c == '\t' || c == '\n' || c == '\v' || c == '\f' || c == '\r';
}
static bool is_hex(char c)
{
  return is_dg(c) || (c >= 'a' && c <= 'f') || (c >= 'A' && c <= 'F');
}
static std::string lower(std::string s)
{
  for (auto &c : s)
    if (c >= 'A' && c <= 'Z')
      c = static_cast<char>(c - 'A' + 'a');
  return s;
}
static bool all_digits(const std::string &s)
{
  if (s.empty())
    return false;
  for (char c : s)
    if (!is_dg(c))
      return false;
  return true;
}
static std::string strip0(const std::string &d)
{
  size_t i = 0;
  while (i + 1 < d.size() && d[i] == '0')
    ++i;
  return d.substr(i);
}
// a <= b for stripped decimal strings
static bool dec_le(const std::string &a, const std::string &b)
{
  if (a.size() != b.size())
    return a.size() < b.size();
  return a <= b;
}
static unsigned __int128 to_u128(const std::string &stripped)  // caller guarantees <= 38 digits
{
  unsigned __int128 v = 0;
  for (char c : stripped)
    v = v * 10 + static_cast<unsigned>(c - '0');
  return v;
}
static std::string u128s(unsigned __int128 v)
{
  if (v == 0)
    return "0";
  std::string s;
  while (v)
  {
    s.push_back(static_cast<char>('0' + static_cast<int>(v % 10)));
    v /= 10;
  }
  std::reverse(s.begin(), s.end());
  return s;
}
static const char *kU64Max = "18446744073709551615";
static const char *kU32Max = "4294967295";
static const char *kI64Max = "9223372036854775807";

// [ws]* [+-]? core [ws]*
struct Shape
{
  size_t lead_ws = 0, trail_ws = 0;
  char sign = 0;
  std::string core;
  bool decorated() const { return lead_ws || trail_ws || sign == '+'; }
  const char *decoration() const { return lead_ws ? "leading-space" : (sign == '+' ? "leading-plus" : "trailing-space"); }
};
static Shape shape(const std::string &s)
{
  Shape sh;
  size_t i = 0, e = s.size();
  while (i < e && is_ws(s[i]))
    ++i;
  sh.lead_ws = i;
  if (i < e && (s[i] == '+' || s[i] == '-'))
    sh.sign = s[i++];
  while (e > i && is_ws(s[e - 1]))
    --e;
  sh.trail_ws = s.size() - e;
  sh.core     = s.substr(i, e - i);
  return sh;
}
// class of a string that is certainly not a number of the reader's syntax: `rest` = what follows
// the accepted prefix (non-empty)
static std::string junk_class(const std::string &rest)
{
  char c = rest[0];
  if (is_ws(c))
    return "inner-space";
  if (c == '+' || c == '-')
    return "inner-sign";
  if (c == '.')
    return "decimal-point";
  return "trailing-junk";
}
static std::string nonnumeric_class(const std::string &core)
{
  if (core[0] == '+' || core[0] == '-')
    return "double-sign";
  for (char c : core)
    if (is_dg(c))
      return "leading-junk";
  return "non-numeric";
}

// ------------------------------------------------------------------------------------------
// independent three-valued parsers of the documented syntaxes
// ------------------------------------------------------------------------------------------
struct UintV
{
  Tri tri;
  std::string cls;
  uint32_t value;
};
static UintV uint_model(const std::string &s)
{
  if (s.empty())
    return {kDefault, "empty", 0};
  Shape sh = shape(s);
  if (sh.core.empty())
    return {kDefault, sh.sign ? "non-numeric" : "only-space", 0};
  if (all_digits(sh.core))
  {
    std::string n = strip0(sh.core);
    if (sh.sign == '-')
      return n == "0" ? UintV{kDontCare, "minus-zero", 0} : UintV{kDefault, "leading-minus", 0};
    if (sh.decorated())
      return {kDontCare, sh.decoration(), 0};
    if (!dec_le(n, kU64Max))
      return {kDefault, "over-64bit", 0};
    if (!dec_le(n, kU32Max))
      return {kDefault, "over-32bit", 0};
    uint32_t v = static_cast<uint32_t>(to_u128(n));
    return {kAccept, sh.core.size() > 1 && sh.core[0] == '0' ? "leading-zeros" : (v == 4294967295u ? "max" : "canonical"), v};
  }
  if (is_dg(sh.core[0]))
  {
    size_t i = 0;
    while (i < sh.core.size() && is_dg(sh.core[i]))
      ++i;
    return {kDefault, junk_class(sh.core.substr(i)), 0};
  }
  return {kDefault, nonnumeric_class(sh.core), 0};
}

struct DurV
{
  Tri tri;
  std::string cls;
  int64_t ns      = 0;      // exact value when tri == kAccept
  bool has_alt    = false;  // unit-less: the specification's milliseconds reading is accepted too
  int64_t alt_ns  = 0;
  bool alt_or_default = false;  // tri == kDefault, but (true, alt_ns) is tolerated as well
  bool risky      = false;      // may overflow int64 inside a naive reader: evaluated in a child
  std::string crash_cls;        // class used if the reader dies on it
};
static bool mul_fits(unsigned __int128 n, unsigned __int128 mult, int64_t &out)
{
  unsigned __int128 p = n * mult;
  if (p > static_cast<unsigned __int128>(INT64_MAX))
    return false;
  out = static_cast<int64_t>(p);
  return true;
}
static DurV dur_model(const std::string &s)
{
  DurV d;
  d.tri = kDefault;
  // any digit run beyond int64 anywhere in the string is a crash hazard for an accumulating reader
  {
    size_t i = 0;
    while (i < s.size())
    {
      if (!is_dg(s[i]))
      {
        ++i;
        continue;
      }
      size_t j = i;
      while (j < s.size() && is_dg(s[j]))
        ++j;
      if (!dec_le(strip0(s.substr(i, j - i)), kI64Max))
      {
        d.risky     = true;
        d.crash_cls = "overflow-digits";
      }
      i = j;
    }
  }
  if (s.empty())
  {
    d.cls = "empty";
    return d;
  }
  Shape sh = shape(s);
  if (sh.core.empty())
  {
    d.cls = sh.sign ? "non-numeric" : "only-space";
    return d;
  }
  size_t i = 0;
  while (i < sh.core.size() && is_dg(sh.core[i]))
    ++i;
  if (i == 0)
  {
    d.cls = nonnumeric_class(sh.core);
    return d;
  }
  std::string n = strip0(sh.core.substr(0, i)), unit = sh.core.substr(i);
  static const struct
  {
    const char *u;
    uint64_t mult;
  } units[] = {{"ns", 1ull},           {"us", 1000ull},         {"ms", 1000000ull}, {"s", 1000000000ull},
               {"m", 60000000000ull},  {"h", 3600000000000ull}, {"", 1000000000ull}};
  uint64_t mult = 0;
  for (auto &u : units)
    if (unit == u.u)
      mult = u.mult;
  if (mult == 0)
  {
    bool case_variant = false;
    for (auto &u : units)
      if (lower(unit) == u.u)
        case_variant = true;
    if (case_variant)
    {
      d.tri = kDontCare;
      d.cls = "unit-case";
    }
    else
      d.cls = junk_class(unit);
    return d;
  }
  bool over63 = !dec_le(n, kI64Max);
  int64_t ns = 0, alt = 0;
  bool fits = false, alt_fits = false;
  if (!over63)
  {
    fits = mul_fits(to_u128(n), mult, ns);
    if (unit.empty())
      alt_fits = mul_fits(to_u128(n), 1000000ull, alt);
    if (!fits)
    {
      d.risky = true;
      if (d.crash_cls.empty())
        d.crash_cls = "overflow-unit";
    }
  }
  if (sh.sign == '-')
  {
    if (n == "0")
    {
      d.tri = kDontCare;
      d.cls = "minus-zero";
    }
    else
      d.cls = "leading-minus";
    return d;
  }
  if (sh.decorated())
  {
    d.tri = kDontCare;
    d.cls = sh.decoration();
    return d;
  }
  if (n == "0")
  {
    d.tri = kDontCare;
    d.cls = "zero";
    return d;
  }
  if (over63)
  {
    d.cls = "overflow-digits";
    return d;
  }
  if (!fits)
  {
    d.cls = "overflow-unit";
    if (alt_fits)
    {
      d.alt_or_default = true;
      d.alt_ns         = alt;
    }
    return d;
  }
  d.tri = kAccept;
  d.ns  = ns;
  if (unit.empty())
  {
    d.has_alt = true;
    d.alt_ns  = alt;
    d.cls     = "no-unit";
  }
  else
    d.cls = sh.core[0] == '0' && i > 1 ? "leading-zeros" : "canonical";
  return d;
}

struct BoolV
{
  Tri tri;
  std::string cls;
  bool value;
};
static BoolV bool_model(const std::string &s)
{
  if (s.empty())
    return {kDefault, "empty", false};
  std::string l = lower(s);
  if (l == "true")
    return {kAccept, s == "true" ? "canonical" : "mixed-case", true};
  if (l == "false")
    return {kAccept, s == "false" ? "canonical" : "mixed-case", false};
  Shape sh = shape(s);
  if (!sh.sign && lower(sh.core) == "true")
    return {kDontCare, "padded-true", false};
  if (!sh.sign && lower(sh.core) == "false")
    return {kDefault, "padded-false", false};
  if (sh.core.empty() && !sh.sign)
    return {kDefault, "only-space", false};
  if (all_digits(sh.core))
    return {kDefault, "numeric", false};
  if (l == "yes" || l == "no" || l == "on" || l == "off" || l == "t" || l == "f" || l == "y" || l == "n" ||
      l == "enabled" || l == "disabled")
    return {kDefault, "yes-no-word", false};
  if (l.rfind("true", 0) == 0 || l.rfind("false", 0) == 0 || std::string("true").rfind(l, 0) == 0 ||
      std::string("false").rfind(l, 0) == 0)
    return {kDefault, "prefix-or-extension", false};
  return {kDefault, "other", false};
}

struct FloatV
{
  Tri tri;
  std::string cls;
  float value;
};
static bool hexfloat_shape(const std::string &r)
{
  size_t i = 0, nd = 0;
  while (i < r.size() && is_hex(r[i]))
    ++i, ++nd;
  if (i < r.size() && r[i] == '.')
  {
    ++i;
    while (i < r.size() && is_hex(r[i]))
      ++i, ++nd;
  }
  if (nd == 0)
    return false;
  if (i < r.size() && (r[i] == 'p' || r[i] == 'P'))
  {
    size_t j = i + 1;
    if (j < r.size() && (r[j] == '+' || r[j] == '-'))
      ++j;
    size_t k = j;
    while (k < r.size() && is_dg(r[k]))
      ++k;
    if (k == j)
      return false;
    i = k;
  }
  return i == r.size();
}
static FloatV float_model(const std::string &s)
{
  if (s.empty())
    return {kDefault, "empty", 0};
  Shape sh = shape(s);
  if (sh.core.empty())
    return {kDefault, sh.sign ? "non-numeric" : "only-space", 0};
  const std::string &c = sh.core;
  std::string lc       = lower(c);
  if (lc == "inf" || lc == "infinity" || lc == "nan")
    return {kDontCare, "inf-nan", 0};
  if (lc.rfind("nan(", 0) == 0 && lc.back() == ')')
  {
    bool ok = true;
    for (size_t i = 4; i + 1 < lc.size(); ++i)
      ok &= is_dg(lc[i]) || (lc[i] >= 'a' && lc[i] <= 'z') || lc[i] == '_';
    if (ok)
      return {kDontCare, "inf-nan", 0};
  }
  if (c.size() > 2 && c[0] == '0' && (c[1] == 'x' || c[1] == 'X') && hexfloat_shape(c.substr(2)))
    return {kDontCare, "hex", 0};
  size_t i = 0, nint = 0, nfrac = 0;
  while (i < c.size() && is_dg(c[i]))
    ++i, ++nint;
  if (i < c.size() && c[i] == '.')
  {
    size_t save = i;
    ++i;
    while (i < c.size() && is_dg(c[i]))
      ++i, ++nfrac;
    if (nint + nfrac == 0)
      i = save;
  }
  if (nint + nfrac == 0)
    return {kDefault, nonnumeric_class(c), 0};
  std::string digits;
  for (size_t k = 0; k < i; ++k)
    if (is_dg(c[k]))
      digits.push_back(c[k]);
  long exp10   = 0;
  bool has_exp = false;
  if (i < c.size() && (c[i] == 'e' || c[i] == 'E'))
  {
    size_t j = i + 1;
    bool neg = false;
    if (j < c.size() && (c[j] == '+' || c[j] == '-'))
      neg = c[j++] == '-';
    size_t k = j;
    long e   = 0;
    while (k < c.size() && is_dg(c[k]))
    {
      if (e < 1000000)
        e = e * 10 + (c[k] - '0');
      ++k;
    }
    if (k > j)
    {
      i       = k;
      exp10   = neg ? -e : e;
      has_exp = true;
    }
  }
  if (i != c.size())
    return {kDefault, junk_class(c.substr(i)), 0};
  if (sh.decorated())
    return {kDontCare, sh.decoration(), 0};
  std::string txt = (sh.sign == '-' ? "-" : "") + c;
  float f         = 0;
  auto res        = std::from_chars(txt.data(), txt.data() + txt.size(), f);
  size_t nz       = digits.find_first_not_of('0');
  if (res.ec == std::errc() && res.ptr == txt.data() + txt.size())
  {
    // at or below the smallest normal float: libc may flag ERANGE for a value that was tiny before
    // rounding ("1.1754943e-38" rounds up to FLT_MIN and glibc still reports underflow)
    if (nz != std::string::npos && std::fabs(f) <= FLT_MIN)
      return {kDontCare, "underflow", 0};
    if (!std::isfinite(f))
      return {kDontCare, "model-unsure", 0};
    return {kAccept, sh.sign == '-' ? "negative" : ((nfrac || has_exp || c.find('.') != std::string::npos) ? "decimal" : "integer"), f};
  }
  if (res.ec == std::errc::result_out_of_range && nz != std::string::npos)
  {
    long lead = static_cast<long>(nint) - 1 - static_cast<long>(nz) + exp10;
    if (lead > 0)
      return {kDefault, "overflow", 0};
    return {kDontCare, "underflow", 0};
  }
  return {kDontCare, "model-unsure", 0};
}

// ------------------------------------------------------------------------------------------
// generators of environment strings (the models above classify whatever comes out)
// ------------------------------------------------------------------------------------------
static std::string no_nul(std::string s)
{
  for (auto &c : s)
    if (c == '\0')
      c = 'x';
  return s;
}
static std::string gen_digits(Rng &r)
{
  static const char *bounds[] = {"0",
                                 "1",
                                 "2147483647",
                                 "2147483648",
                                 "4294967294",
                                 "4294967295",
                                 "4294967296",
                                 "4294967297",
                                 "9223372036854775806",
                                 "9223372036854775807",
                                 "9223372036854775808",
                                 "18446744073709551614",
                                 "18446744073709551615",
                                 "18446744073709551616",
                                 "10000000000000000000",
                                 "99999999999999999999"};
  switch (r.below(10))
  {
    case 0:
    case 1:
      return std::to_string(r.below(1000));
    case 2:
    case 3:
      return std::to_string(r.below(4294967296ull));
    case 4:
      return r.pick(bounds);
    case 5:
      return std::string(1, static_cast<char>('1' + r.below(9))) + r.bytes(static_cast<size_t>(r.range(19, 39)), "0123456789");
    case 6:
      return std::string(static_cast<size_t>(r.range(1, 30)), '0') + (r.coin() ? std::to_string(r.below(100000)) : std::string(r.pick(bounds)));
    case 7:
      return std::to_string(r.next());
    case 8:
      return r.bytes(static_cast<size_t>(r.range(1, 19)), "0123456789");
    default:
      return std::to_string(4294967295ull - r.below(3)) ;
  }
}
static std::string decorate(Rng &r, std::string core)
{
  static const char *pre[]  = {" ", "\t", "\n", "  \t ", "+", "-", " +", " -", "+-", "--", "++", "\v", "\f\r", "- ", "+ "};
  static const char *suf[]  = {" ",  "\t", "\n", "abc", ".5", ".", "e3",   "x", "L", "u", ",",
                               "%",  "ms", "s",  " 1",  "-1", "+", "\x80", "_", "k", "=", "  "};
  static const char *mid[]  = {" ", "-", "+", "_", ",", ".", "x", "\t"};
  static const std::string alphabet = "0123456789+-. \teExXaAnNiIfFmsuhp";
  unsigned c = static_cast<unsigned>(r.below(100));
  if (c < 50)
    return core;
  if (c < 62)
    return std::string(r.pick(pre)) + core;
  if (c < 76)
    return core + r.pick(suf);
  if (c < 80)
    return std::string(r.pick(pre)) + core + r.pick(suf);
  if (c < 86 && !core.empty())
  {
    core.insert(static_cast<size_t>(r.below(core.size() + 1)), r.pick(mid));
    return core;
  }
  if (c < 90 && !core.empty())
  {
    core.erase(static_cast<size_t>(r.below(core.size())), 1);
    return core;
  }
  if (c < 95 && !core.empty())
  {
    core[r.below(core.size())] = alphabet[r.below(alphabet.size())];
    return core;
  }
  if (c < 98)
    return r.bytes(static_cast<size_t>(r.range(0, 12)), alphabet);
  return no_nul(r.anybytes(static_cast<size_t>(r.range(1, 8))));
}
static std::string gen_uint_string(Rng &r)
{
  unsigned c = static_cast<unsigned>(r.below(100));
  if (c < 3)
    return "";
  if (c < 15)
  {
    // negative numbers whose two's-complement wraps into the 32-bit range
    uint64_t k;
    switch (r.below(5))
    {
      case 0:
        k = 1;
        break;
      case 1:
        k = 4294967295ull;
        break;
      case 2:
        k = 4294967296ull;
        break;
      default:
        k = 1 + r.below(4294967295ull);
    }
    std::string s = "-" + std::to_string(0ull - k);
    return r.chance(1, 8) ? " " + s : s;
  }
  if (c < 22)
    return "-" + gen_digits(r);
  if (c < 25)
    return r.coin() ? "-0" : "-" + std::string(static_cast<size_t>(r.range(1, 5)), '0');
  return decorate(r, gen_digits(r));
}
static std::string gen_duration_string(Rng &r)
{
  static const char *good[] = {"ns", "us", "ms", "s", "m", "h", ""};
  static const uint64_t mult[] = {1ull, 1000ull, 1000000ull, 1000000000ull, 60000000000ull, 3600000000000ull, 1000000000ull};
  static const char *bad[]  = {"d", "sec", "min", "MS", "S", "Ms", "H", "NS", "\xc2\xb5s", "ks", "n", "u", "mss", "sm", "hh", "Us", "M"};
  unsigned c = static_cast<unsigned>(r.below(100));
  if (c < 3)
    return "";
  size_t ui = static_cast<size_t>(r.below(7));
  std::string unit = good[ui];
  std::string num;
  unsigned k = static_cast<unsigned>(r.below(100));
  if (k < 40)
    num = std::to_string(1 + r.below(100000));
  else if (k < 60)
  {
    // the largest count of this unit whose nanosecond value fits int64, -1 .. +2
    uint64_t lim = static_cast<uint64_t>(INT64_MAX) / mult[ui];
    num          = u128s(static_cast<unsigned __int128>(lim) + static_cast<unsigned>(r.below(4)) - 1);
    if (ui == 6 && r.coin())  // unit-less: also the milliseconds boundary
      num = u128s(static_cast<unsigned __int128>(static_cast<uint64_t>(INT64_MAX) / 1000000ull) + static_cast<unsigned>(r.below(4)) - 1);
  }
  else if (k < 64)
    num = "0";
  else
    num = gen_digits(r);
  if (c < 15)
    unit = r.pick(bad);
  return decorate(r, num + unit);
}
static std::string flip_case(Rng &r, std::string s)
{
  for (auto &ch : s)
    if (ch >= 'a' && ch <= 'z' && r.coin())
      ch = static_cast<char>(ch - 'a' + 'A');
  return s;
}
static std::string gen_bool_string(Rng &r)
{
  static const char *other[] = {"1",     "0",      "yes",   "no",    "on",      "off",  "t",    "f",         "y",          "n",
                                "tru",   "truee",  "true1", "ttrue", "fals",    "falsee", "TRUE ", " true",  "true\n",     "\ttrue",
                                "false ", " false", "enabled", "null", "nil",   "none", "truefalse", "true,false", "tr ue", "Maybe ?",
                                "tr\xc3\xbc" "e", "01", "-1", "+true", "true\t", "\"true\"", "'false'", "TRUE=1"};
  unsigned c = static_cast<unsigned>(r.below(100));
  if (c < 4)
    return "";
  if (c < 30)
    return flip_case(r, "true");
  if (c < 50)
    return flip_case(r, "false");
  if (c < 80)
    return flip_case(r, r.pick(other));
  return decorate(r, flip_case(r, r.coin() ? "true" : "false"));
}
static std::string gen_float_string(Rng &r)
{
  static const char *special[] = {"0.5",         "1e-3",       "3.4028235e38", "3.4028234e38", "3.4028236e38", "3.5e38",     "1e39",
                                  "1e-46",       "1.17549435e-38", "1e-40",     ".5",          "5.",           "1e+2",       "-12.34",
                                  "inf",         "-inf",       "nan",          "NaN(1)",       "infinity",     "INF",        "0x1p-2",
                                  "0x1.8p1",     "0x10",       "0x",           "0x1p",         "0.1000000000000000055511151231257827",
                                  "16777217",    "16777216",   "340282346638528859811704183484516925440", "340282356779733661637539395458142568448",
                                  "1e",          "1e+",        "1.2.3",        ".",            "-",            "1,5",        "3.9999e+99",
                                  "4294967295",  "-0",         "0",            "0.0",          "-0.0",         "1E5",        "1e05", "1e999999999999999999999",
                                  "1e-999999999999999999999", "0e999", "00012.5", "1.0e-37", "9.999999e-38", "nan(", "infinityx", "1f", "1.5f", "1d"};
  unsigned c = static_cast<unsigned>(r.below(100));
  if (c < 3)
    return "";
  std::string core;
  if (c < 35)
    core = r.pick(special);
  else if (c < 60)
  {
    core = std::to_string(r.below(100000));
    if (r.coin())
      core += "." + r.bytes(static_cast<size_t>(r.range(0, 9)), "0123456789");
    if (r.chance(1, 3))
      core += std::string(r.coin() ? "e" : "E") + (r.coin() ? "" : (r.coin() ? "+" : "-")) + std::to_string(r.below(30));
    if (r.chance(1, 4))
      core = "-" + core;
  }
  else if (c < 75)
  {
    // exponents around both ends of the float range
    core = std::to_string(1 + r.below(9)) + "." + r.bytes(static_cast<size_t>(r.range(0, 8)), "0123456789") + "e" +
           std::to_string(r.coin() ? r.range(30, 45) : r.range(-50, -30));
  }
  else
    core = gen_digits(r);
  return decorate(r, core);
}
static std::string gen_plain_string(Rng &r)
{
  unsigned c = static_cast<unsigned>(r.below(100));
  if (c < 6)
    return "";
  if (c < 60)
    return r.bytes(static_cast<size_t>(r.range(1, 40)), "abcXYZ019 _-./:=,%\t");
  if (c < 85)
    return no_nul(r.anybytes(static_cast<size_t>(r.range(1, 64))));
  if (c < 95)
    return r.bytes(static_cast<size_t>(r.range(200, 5000)), "abcdefghijklmnopqrstuvwxyz0123456789");
  return r.bytes(static_cast<size_t>(r.range(60000, 140000)), "xyz ");
}

static int pick_errno(Rng &r)
{
  unsigned c = static_cast<unsigned>(r.below(100));
  if (c < 35)
    return 0;
  if (c < 75)
    return ERANGE;
  if (c < 90)
    return EINVAL;
  return c < 95 ? EDOM : ENOENT;
}
static std::string errno_name(int e)
{
  switch (e)
  {
    case 0:
      return "0";
    case ERANGE:
      return "ERANGE";
    case EINVAL:
      return "EINVAL";
    case EDOM:
      return "EDOM";
    case ENOENT:
      return "ENOENT";
  }
  return std::to_string(e);
}
static std::string pick_var_name(Rng &r)
{
  switch (r.below(5))
  {
    case 0:
      return "VF_C18_A";
    case 1:
      return "OTEL_VF_C18_SETTING";
    case 2:
      return "VF_C18_" + std::string(200, 'X');
    case 3:
      return "vf.c18-lower";
    default:
      return "VF_C18_" + std::to_string(r.below(4));
  }
}

// RAII: variable set (value != nullptr) or unset for the duration of one reader call
struct EnvVar
{
  std::string name;
  EnvVar(const std::string &n, const std::string *value) : name(n)
  {
    if (value)
      setenv(name.c_str(), value->c_str(), 1);
    else
      unsetenv(name.c_str());
  }
  ~EnvVar() { unsetenv(name.c_str()); }
};

// ------------------------------------------------------------------------------------------
// engine "readers"
// ------------------------------------------------------------------------------------------
static std::string inp(const std::string &name, const std::string *v, int err)
{
  return (name.size() > 40 ? name.substr(0, 12) + "..." : name) + "=" + (v ? "<" + vf::show(*v, 120) + ">" : "(unset)") +
         " errno-before=" + errno_name(err);
}

struct UintObs
{
  bool found;
  uint32_t value;
};
static UintObs call_uint(const std::string &name, const std::string *v, int err)
{
  EnvVar e(name, v);
  uint32_t out = 0xDEADBEEFu;
  errno        = err;
  bool f       = sdkc::GetUintEnvironmentVariable(name.c_str(), out);
  return {f, out};
}
static bool uint_ok(const UintV &m, const UintObs &o)
{
  if (m.tri == kAccept)
    return o.found && o.value == m.value;
  if (m.tri == kDefault)
    return o.value == 0;
  return true;
}
static void uint_case(Rng &r, const std::string &s, const std::string &name, int err)
{
  UintV m = uint_model(s);
  C("uint_strings");
  C(m.tri == kAccept ? "uint_must_accept" : (m.tri == kDefault ? "uint_must_default" : "uint_dontcare"));
  C("uint:" + m.cls);
  if (m.tri == kAccept && err != 0)
    C("stale_errno_on_must_accept");
  if (m.cls == "leading-minus")
  {
    Shape sh = shape(s);
    std::string n = strip0(sh.core);
    if (dec_le(n, kU64Max) && !dec_le(n, "18446744069414584320"))
      C("uint_leading_minus_wraps_into_32bit");
  }
  UintObs o = call_uint(name, &s, err);
  if (m.tri == kDefault && o.found)
    C("uint_default_reported_found");
  if (!uint_ok(m, o))
  {
    std::string cls = m.cls;
    if (err != 0 && uint_ok(m, call_uint(name, &s, 0)))
      cls = "stale-errno";
    V("uint-exact-or-default", cls,
      inp(name, &s, err) + " gave (" + (o.found ? "true" : "false") + "," + std::to_string(o.value) + ") want " +
          (m.tri == kAccept ? "(true," + std::to_string(m.value) + ")" : "value 0"));
  }
  (void)r;
}

struct DurObs
{
  bool crashed = false;
  bool found   = false;
  int64_t ns   = 0;
  std::string crash;
};
static const int64_t kDurSentinel = 777;
static DurObs call_dur_direct(const std::string &name, const std::string *v, int err)
{
  EnvVar e(name, v);
  std::chrono::system_clock::duration out = std::chrono::nanoseconds(kDurSentinel);
  errno  = err;
  bool f = sdkc::GetDurationEnvironmentVariable(name.c_str(), out);
  DurObs o;
  o.found = f;
  o.ns    = std::chrono::duration_cast<std::chrono::nanoseconds>(out).count();
  return o;
}
static DurObs call_dur(const std::string &name, const std::string *v, int err, bool in_child)
{
  if (!in_child)
    return call_dur_direct(name, v, err);
  ChildOut co = run_child([&] {
    DurObs o = call_dur_direct(name, v, err);
    child_emit('O', o.found ? "1" : "0", std::to_string(o.ns), "");
  });
  DurObs o;
  if (!co.done || co.recs.empty() || co.recs[0].type != 'O')
  {
    o.crashed = true;
    o.crash   = co.how() + "; stderr: " + co.err.substr(0, 900);
    return o;
  }
  o.found = co.recs[0].a == "1";
  o.ns    = strtoll(co.recs[0].b.c_str(), nullptr, 10);
  return o;
}
static bool dur_ok(const DurV &m, const DurObs &o)
{
  if (o.crashed)
    return false;
  if (m.tri == kAccept)
    return o.found && (o.ns == m.ns || (m.has_alt && o.ns == m.alt_ns));
  if (m.tri == kDefault)
  {
    if (m.alt_or_default && o.found)
      return o.ns == m.alt_ns;
    return !o.found && (o.ns == kDurSentinel || o.ns == 0);
  }
  return true;
}
static void dur_case(Rng &r, const std::string &s, const std::string &name, int err)
{
  DurV m = dur_model(s);
  C("dur_strings");
  C(m.tri == kAccept ? "dur_must_accept" : (m.tri == kDefault ? "dur_must_default" : "dur_dontcare"));
  C("dur:" + m.cls);
  if (m.tri == kAccept && err != 0)
    C("stale_errno_on_must_accept");
  if (m.risky)
    C("dur_overflow_children");
  if (m.risky && m.crash_cls == "overflow-digits")
    C("dur_overflow_digit_runs");
  if (m.risky && m.crash_cls == "overflow-unit")
    C("dur_overflow_unit_conversions");
  DurObs o = call_dur(name, &s, err, m.risky);
  if (!dur_ok(m, o))
  {
    std::string cls = o.crashed ? m.crash_cls : m.cls;
    if (!o.crashed && err != 0 && dur_ok(m, call_dur(name, &s, 0, m.risky)))
      cls = "stale-errno";
    std::string want = m.tri == kAccept
                           ? "(true," + std::to_string(m.ns) + "ns" + (m.has_alt ? " or " + std::to_string(m.alt_ns) + "ns" : "") + ")"
                           : std::string("false with the value unset") + (m.alt_or_default ? " or (true," + std::to_string(m.alt_ns) + "ns)" : "");
    V("duration-exact-or-default", cls,
      inp(name, &s, err) + (o.crashed ? " reader died in a child process: " + o.crash
                                      : " gave (" + std::string(o.found ? "true" : "false") + "," + std::to_string(o.ns) + "ns)") +
          " want " + want);
  }
  (void)r;
}

struct BoolObs
{
  bool found, value;
};
static BoolObs call_bool(const std::string &name, const std::string *v, int err, bool sentinel)
{
  EnvVar e(name, v);
  bool out = sentinel;
  errno    = err;
  bool f   = sdkc::GetBoolEnvironmentVariable(name.c_str(), out);
  return {f, out};
}
static void bool_case(Rng &r, const std::string &s, const std::string &name, int err)
{
  BoolV m = bool_model(s);
  C("bool_strings");
  C(m.tri == kAccept ? "bool_must_accept" : (m.tri == kDefault ? "bool_must_default" : "bool_dontcare"));
  C("bool:" + m.cls);
  bool sentinel = m.tri == kAccept ? !m.value : true;
  BoolObs o     = call_bool(name, &s, err, sentinel);
  bool ok       = m.tri == kAccept ? (o.found && o.value == m.value) : (m.tri == kDefault ? !o.value : true);
  if (m.tri == kDefault && o.found)
    C("bool_default_reported_found");
  if (!ok)
    V("bool-exact-or-default", m.cls,
      inp(name, &s, err) + " gave (" + (o.found ? "true" : "false") + "," + (o.value ? "true" : "false") + ") want " +
          (m.tri == kAccept ? std::string("(true,") + (m.value ? "true)" : "false)") : "value false"));
  // the same string through OTEL_SDK_DISABLED
  if (r.chance(1, 2))
  {
    EnvVar e("OTEL_SDK_DISABLED", &s);
    errno         = err;
    bool disabled = sdkc::GetSdkDisabled();
    C("sdk_disabled_calls");
    if (m.tri != kDontCare && disabled != (m.tri == kAccept && m.value))
      V("sdk-disabled-exact-or-default", m.cls,
        inp("OTEL_SDK_DISABLED", &s, err) + " GetSdkDisabled()=" + (disabled ? "true" : "false"));
  }
}

struct FloatObs
{
  bool found;
  float value;
};
static FloatObs call_float(const std::string &name, const std::string *v, int err)
{
  EnvVar e(name, v);
  float out = 123.5f;
  errno     = err;
  bool f    = sdkc::GetFloatEnvironmentVariable(name.c_str(), out);
  return {f, out};
}
static bool float_ok(const FloatV &m, const FloatObs &o)
{
  if (m.tri == kAccept)
    return o.found && o.value == m.value;
  if (m.tri == kDefault)
    return o.value == 0.0f;
  return true;
}
static std::string fstr(float f)
{
  char b[64];
  snprintf(b, sizeof b, "%.9g", static_cast<double>(f));
  return b;
}
static void float_case(Rng &r, const std::string &s, const std::string &name, int err)
{
  FloatV m = float_model(s);
  C("float_strings");
  C(m.tri == kAccept ? "float_must_accept" : (m.tri == kDefault ? "float_must_default" : "float_dontcare"));
  C("float:" + m.cls);
  if (m.tri == kAccept && err != 0)
    C("stale_errno_on_must_accept");
  FloatObs o = call_float(name, &s, err);
  if (m.tri == kDefault && o.found)
    C("float_default_reported_found");
  if (!float_ok(m, o))
  {
    std::string cls = m.cls;
    if (err != 0 && float_ok(m, call_float(name, &s, 0)))
      cls = "stale-errno";
    V("float-exact-or-default", cls,
      inp(name, &s, err) + " gave (" + (o.found ? "true" : "false") + "," + fstr(o.value) + ") want " +
          (m.tri == kAccept ? "(true," + fstr(m.value) + ")" : "value 0"));
  }
  (void)r;
}

static void string_case(Rng &r, const std::string &s, const std::string &name, int err)
{
  EnvVar e(name, &s);
  std::string out = "sentinel";
  errno           = err;
  bool f          = sdkc::GetStringEnvironmentVariable(name.c_str(), out);
  C("string_strings");
  if (s.empty())
  {
    C("string_empty");
    if (!out.empty())
      V("string-exact-or-default", "empty", inp(name, &s, err) + " left value <" + vf::show(out, 60) + ">");
  }
  else
  {
    C("string_must_accept");
    if (!f || out != s)
      V("string-exact-or-default", s.size() > 4096 ? "long" : "non-empty",
        inp(name, &s, err) + " gave (" + (f ? "true" : "false") + ",<" + vf::show(out, 120) + ">)");
  }
  (void)r;
}

// a variable that does not exist: every reader reports false and the documented default
static void unset_case(Rng &r, const std::string &name, int err)
{
  C("unset_variable_calls");
  switch (r.below(5))
  {
    case 0: {
      UintObs o = call_uint(name, nullptr, err);
      if (o.found || o.value != 0)
        V("uint-exact-or-default", "unset", inp(name, nullptr, err) + " gave (" + (o.found ? "true" : "false") + "," + std::to_string(o.value) + ")");
      break;
    }
    case 1: {
      DurObs o = call_dur_direct(name, nullptr, err);
      if (o.found || (o.ns != 0 && o.ns != kDurSentinel))
        V("duration-exact-or-default", "unset", inp(name, nullptr, err) + " gave (" + (o.found ? "true" : "false") + "," + std::to_string(o.ns) + "ns)");
      break;
    }
    case 2: {
      BoolObs o = call_bool(name, nullptr, err, true);
      if (o.found || o.value)
        V("bool-exact-or-default", "unset", inp(name, nullptr, err) + " gave (" + (o.found ? "true" : "false") + "," + (o.value ? "true" : "false") + ")");
      break;
    }
    case 3: {
      FloatObs o = call_float(name, nullptr, err);
      if (o.found || o.value != 0.0f)
        V("float-exact-or-default", "unset", inp(name, nullptr, err) + " gave (" + (o.found ? "true" : "false") + "," + fstr(o.value) + ")");
      break;
    }
    default: {
      EnvVar e(name, nullptr);
      std::string out = "sentinel";
      errno           = err;
      bool f          = sdkc::GetStringEnvironmentVariable(name.c_str(), out);
      if (f || !out.empty())
        V("string-exact-or-default", "unset", inp(name, nullptr, err) + " gave (" + (f ? "true" : "false") + ",<" + vf::show(out, 60) + ">)");
    }
  }
}

static void reader_case(uint64_t seed)
{
  auto &R = vf::report();
  Rng r(seed);
  std::string name = pick_var_name(r);
  int err          = pick_errno(r);
  if (r.chance(1, 40))
  {
    unset_case(r, name, err);
    return;
  }
  unsigned kind = static_cast<unsigned>(r.below(100));
  unsigned gen  = r.chance(1, 6) ? static_cast<unsigned>(r.below(100)) : kind;  // cross-feeding
  std::string s;
  if (gen < 30)
    s = gen_uint_string(r);
  else if (gen < 60)
    s = gen_duration_string(r);
  else if (gen < 74)
    s = gen_bool_string(r);
  else if (gen < 92)
    s = gen_float_string(r);
  else
    s = gen_plain_string(r);
  s = no_nul(s);
  const char *kn;
  if (kind < 30)
  {
    kn = "uint";
    uint_case(r, s, name, err);
  }
  else if (kind < 60)
  {
    kn = "duration";
    dur_case(r, s, name, err);
  }
  else if (kind < 74)
  {
    kn = "bool";
    bool_case(r, s, name, err);
  }
  else if (kind < 92)
  {
    kn = "float";
    float_case(r, s, name, err);
  }
  else
  {
    kn = "string";
    string_case(r, s, name, err);
  }
  R.count("env_strings");
  R.nontrivial(vf::fnv1a(s, vf::fnv1a(kn)));
  if (R.want_sample(2) && r.chance(1, 40))
    R.sample(std::string("reader ") + kn + " errno-before=" + errno_name(err) + " <" + vf::show(s, 80) + ">");
}

// ------------------------------------------------------------------------------------------
// attribute values (all 15 owned alternatives), model maps, comparison
// ------------------------------------------------------------------------------------------
static const char *kSvc = "service.name";
static const char *kPen = "process.executable.name";

static std::string gen_attr_string(Rng &r)
{
  switch (r.below(8))
  {
    case 0:
      return "";
    case 1:
      return std::string("a") + '\0' + "b";
    case 2:
      return r.bytes(300, "abcdefghij");
    case 3:
      return r.anybytes(static_cast<size_t>(r.range(1, 12)));
    default:
      return r.bytes(static_cast<size_t>(r.range(1, 12)), "abcXYZ019 _-./");
  }
}
template <class T, class G>
static std::vector<T> gen_vec(Rng &r, G &&g)
{
  size_t n = r.chance(1, 20) ? 100 : static_cast<size_t>(r.range(0, 5));
  std::vector<T> v;
  for (size_t i = 0; i < n; ++i)
    v.push_back(g());
  return v;
}
static double gen_double(Rng &r)
{
  static const double sp[] = {0.0, -0.0, 1.0, -1.5, 4.9e-324, 2.2250738585072014e-308, 1.7976931348623157e308,
                              std::numeric_limits<double>::infinity(), -std::numeric_limits<double>::infinity(),
                              std::numeric_limits<double>::quiet_NaN()};
  return r.coin() ? r.pick(sp) : (r.unit() - 0.5) * 1e6;
}
static Owned gen_value(Rng &r, int type = -1)
{
  if (type < 0)
    type = static_cast<int>(r.below(15));
  switch (type)
  {
    case 0:
      return Owned(r.coin());
    case 1: {
      static const int32_t sp[] = {0, -1, INT32_MAX, INT32_MIN, 42};
      return Owned(static_cast<int32_t>(r.coin() ? r.pick(sp) : static_cast<int32_t>(r.next())));
    }
    case 2:
      return Owned(static_cast<uint32_t>(r.coin() ? UINT32_MAX - r.below(2) : r.next()));
    case 3: {
      static const int64_t sp[] = {0, -1, INT64_MAX, INT64_MIN, 1ll << 53};
      return Owned(static_cast<int64_t>(r.coin() ? r.pick(sp) : static_cast<int64_t>(r.next())));
    }
    case 4:
      return Owned(gen_double(r));
    case 5:
      return Owned(gen_attr_string(r));
    case 6:
      return Owned(gen_vec<bool>(r, [&] { return r.coin(); }));
    case 7:
      return Owned(gen_vec<int32_t>(r, [&] { return static_cast<int32_t>(r.next()); }));
    case 8:
      return Owned(gen_vec<uint32_t>(r, [&] { return static_cast<uint32_t>(r.next()); }));
    case 9:
      return Owned(gen_vec<int64_t>(r, [&] { return static_cast<int64_t>(r.next()); }));
    case 10:
      return Owned(gen_vec<double>(r, [&] { return gen_double(r); }));
    case 11:
      return Owned(gen_vec<std::string>(r, [&] { return gen_attr_string(r); }));
    case 12:
      return Owned(static_cast<uint64_t>(r.coin() ? UINT64_MAX - r.below(2) : r.next()));
    case 13:
      return Owned(gen_vec<uint64_t>(r, [&] { return r.next(); }));
    default:
      return Owned(gen_vec<uint8_t>(r, [&] { return static_cast<uint8_t>(r.next()); }));
  }
}
static bool same_double(double a, double b)
{
  return memcmp(&a, &b, sizeof a) == 0;
}
static bool same_value(const Owned &a, const Owned &b)
{
  if (a.index() != b.index())
    return false;
  switch (a.index())
  {
    case 0:
      return nostd::get<0>(a) == nostd::get<0>(b);
    case 1:
      return nostd::get<1>(a) == nostd::get<1>(b);
    case 2:
      return nostd::get<2>(a) == nostd::get<2>(b);
    case 3:
      return nostd::get<3>(a) == nostd::get<3>(b);
    case 4:
      return same_double(nostd::get<4>(a), nostd::get<4>(b));
    case 5:
      return nostd::get<5>(a) == nostd::get<5>(b);
    case 6:
      return nostd::get<6>(a) == nostd::get<6>(b);
    case 7:
      return nostd::get<7>(a) == nostd::get<7>(b);
    case 8:
      return nostd::get<8>(a) == nostd::get<8>(b);
    case 9:
      return nostd::get<9>(a) == nostd::get<9>(b);
    case 10: {
      auto &x = nostd::get<10>(a);
      auto &y = nostd::get<10>(b);
      if (x.size() != y.size())
        return false;
      for (size_t i = 0; i < x.size(); ++i)
        if (!same_double(x[i], y[i]))
          return false;
      return true;
    }
    case 11:
      return nostd::get<11>(a) == nostd::get<11>(b);
    case 12:
      return nostd::get<12>(a) == nostd::get<12>(b);
    case 13:
      return nostd::get<13>(a) == nostd::get<13>(b);
    default:
      return nostd::get<14>(a) == nostd::get<14>(b);
  }
}
static const char *type_name(size_t idx)
{
  static const char *n[] = {"bool",   "int32",  "uint32",  "int64",   "double", "string", "bool[]", "int32[]",
                            "uint32[]", "int64[]", "double[]", "string[]", "uint64", "uint64[]", "bytes"};
  return idx < 15 ? n[idx] : "?";
}
static std::string show_value(const Owned &v)
{
  std::string s = std::string(type_name(v.index())) + ":";
  char b[64];
  switch (v.index())
  {
    case 0:
      return s + (nostd::get<0>(v) ? "true" : "false");
    case 1:
      return s + std::to_string(nostd::get<1>(v));
    case 2:
      return s + std::to_string(nostd::get<2>(v));
    case 3:
      return s + std::to_string(nostd::get<3>(v));
    case 4:
      snprintf(b, sizeof b, "%.17g", nostd::get<4>(v));
      return s + b;
    case 5:
      return s + "<" + vf::show(nostd::get<5>(v), 40) + ">";
    case 11: {
      auto &x = nostd::get<11>(v);
      s += "[" + std::to_string(x.size()) + "]";
      for (size_t i = 0; i < x.size() && i < 3; ++i)
        s += "<" + vf::show(x[i], 16) + ">";
      return s;
    }
    case 12:
      return s + std::to_string(nostd::get<12>(v));
    case 6:
      return s + "[" + std::to_string(nostd::get<6>(v).size()) + "]";
    case 7:
      return s + "[" + std::to_string(nostd::get<7>(v).size()) + "]";
    case 8:
      return s + "[" + std::to_string(nostd::get<8>(v).size()) + "]";
    case 9:
      return s + "[" + std::to_string(nostd::get<9>(v).size()) + "]";
    case 10:
      return s + "[" + std::to_string(nostd::get<10>(v).size()) + "]";
    case 13:
      return s + "[" + std::to_string(nostd::get<13>(v).size()) + "]";
    default:
      return s + "[" + std::to_string(nostd::get<14>(v).size()) + "]";
  }
}
static std::string show_model(const Model &m)
{
  std::string s = "{";
  size_t n      = 0;
  for (auto &kv : m)
  {
    if (n++)
      s += ", ";
    if (n > 12)
    {
      s += "...";
      break;
    }
    s += vf::show(kv.first, 30) + "=" + show_value(kv.second);
  }
  return s + "}(" + std::to_string(m.size()) + ")";
}
static Model snapshot(const sdkr::ResourceAttributes &a)
{
  Model m;
  for (auto &kv : a)
    m[kv.first] = kv.second;
  return m;
}
static bool same_model(const Model &a, const Model &b)
{
  if (a.size() != b.size())
    return false;
  auto i = a.begin();
  auto j = b.begin();
  for (; i != a.end(); ++i, ++j)
    if (i->first != j->first || !same_value(i->second, j->second))
      return false;
  return true;
}

// resources with exactly the given attributes: ResourceDetector::Create is the only public path
// that does not add defaults / environment
struct RawDetector : public sdkr::ResourceDetector
{
  sdkr::Resource Detect() override { return ResourceDetector::Create({}); }
  static sdkr::Resource Make(const sdkr::ResourceAttributes &a, const std::string &schema)
  {
    return ResourceDetector::Create(a, schema);
  }
};

template <class T>
static void set_span(sdkr::ResourceAttributes &out, nostd::string_view k, const std::vector<T> &v, Rng &r)
{
  size_t n = v.size();
  T *p     = static_cast<T *>(malloc(n ? n * sizeof(T) : 1));
  for (size_t i = 0; i < n; ++i)
    p[i] = v[i];
  out.SetAttribute(k, nostd::span<const T>(p, n));
  if (r.coin())
    memset(p, 0x5a, n * sizeof(T));
  free(p);
}
// through the non-owning API with exact-size buffers that die right after the call
static void set_via_views(Rng &r, sdkr::ResourceAttributes &out, const std::string &key, const Owned &v)
{
  vf::Buf kb(key);
  nostd::string_view k(kb.data(), kb.size());
  switch (v.index())
  {
    case 0:
      out.SetAttribute(k, nostd::get<0>(v));
      break;
    case 1:
      out.SetAttribute(k, nostd::get<1>(v));
      break;
    case 2:
      out.SetAttribute(k, nostd::get<2>(v));
      break;
    case 3:
      out.SetAttribute(k, nostd::get<3>(v));
      break;
    case 4:
      out.SetAttribute(k, nostd::get<4>(v));
      break;
    case 5: {
      const std::string &s = nostd::get<5>(v);
      if (s.find('\0') == std::string::npos && r.coin())
      {
        vf::Buf sb(s.c_str(), s.size() + 1);  // const char* alternative: terminated, exact size
        out.SetAttribute(k, sb.data());
        r.coin() ? sb.scribble() : sb.release();
      }
      else
      {
        vf::Buf sb(s);
        out.SetAttribute(k, nostd::string_view(sb.data(), sb.size()));
        r.coin() ? sb.scribble() : sb.release();
      }
      break;
    }
    case 6: {
      auto &x  = nostd::get<6>(v);
      bool *p  = static_cast<bool *>(malloc(x.size() ? x.size() : 1));
      for (size_t i = 0; i < x.size(); ++i)
        p[i] = x[i];
      out.SetAttribute(k, nostd::span<const bool>(p, x.size()));
      free(p);
      break;
    }
    case 7:
      set_span(out, k, nostd::get<7>(v), r);
      break;
    case 8:
      set_span(out, k, nostd::get<8>(v), r);
      break;
    case 9:
      set_span(out, k, nostd::get<9>(v), r);
      break;
    case 10:
      set_span(out, k, nostd::get<10>(v), r);
      break;
    case 11: {
      auto &x = nostd::get<11>(v);
      std::vector<vf::Buf> bufs;
      for (auto &s : x)
        bufs.emplace_back(s);
      nostd::string_view *p = static_cast<nostd::string_view *>(malloc(x.size() ? x.size() * sizeof(nostd::string_view) : 1));
      for (size_t i = 0; i < x.size(); ++i)
        new (p + i) nostd::string_view(bufs[i].data(), bufs[i].size());
      out.SetAttribute(k, nostd::span<const nostd::string_view>(p, x.size()));
      free(p);
      for (auto &b : bufs)
        r.coin() ? b.scribble() : b.release();
      break;
    }
    case 12:
      out.SetAttribute(k, nostd::get<12>(v));
      break;
    case 13:
      set_span(out, k, nostd::get<13>(v), r);
      break;
    default:
      set_span(out, k, nostd::get<14>(v), r);
  }
  r.coin() ? kb.scribble() : kb.release();
}
static sdkr::ResourceAttributes build_map(Rng &r, const Model &m)
{
  sdkr::ResourceAttributes out;
  for (auto &kv : m)
  {
    if (r.chance(1, 3))
      set_via_views(r, out, kv.first, kv.second);
    else
      out[kv.first] = kv.second;
  }
  return out;
}

static std::string gen_key(Rng &r)
{
  static const char *pool[] = {"service.name", "process.executable.name", "telemetry.sdk.language", "telemetry.sdk.name",
                               "telemetry.sdk.version", "k0", "k1", "k2", "k3", "k4", "k5", "K1", "k", "k00", "a.b.c",
                               "service.namespace", "service.name ", "SERVICE.NAME"};
  unsigned c = static_cast<unsigned>(r.below(100));
  if (c < 82)
    return r.pick(pool);
  if (c < 85)
    return "";
  if (c < 88)
    return std::string("k") + '\0' + "z";
  if (c < 91)
    return r.bytes(200, "abcdef.");
  return r.bytes(static_cast<size_t>(r.range(1, 6)), "abk01.");
}
static Model gen_model(Rng &r, size_t maxn = 10)
{
  Model m;
  size_t n = static_cast<size_t>(r.range(0, static_cast<int64_t>(maxn)));
  for (size_t i = 0; i < n; ++i)
    m[gen_key(r)] = gen_value(r);
  return m;
}
static std::string gen_schema(Rng &r)
{
  static const char *s[] = {"", "", "https://opentelemetry.io/schemas/1.20.0", "https://opentelemetry.io/schemas/1.21.0", "x"};
  if (r.chance(1, 15))
    return "https://example/" + r.bytes(300, "abcdef/");
  return r.pick(s);
}
static std::string key_kind(const std::string &k)
{
  if (k == kSvc)
    return "service.name";
  if (k == kPen)
    return "process.executable.name";
  if (k.rfind("telemetry.sdk.", 0) == 0)
    return "telemetry.sdk";
  return "other-key";
}

// ------------------------------------------------------------------------------------------
// engine "merge"
// ------------------------------------------------------------------------------------------
static void check_resource_is(const sdkr::Resource &res, const Model &want, const std::string &schema, const char *assertion,
                              const std::string &cls, const std::string &what)
{
  Model got = snapshot(res.GetAttributes());
  if (!same_model(got, want) || res.GetSchemaURL() != schema)
    V(assertion, cls,
      what + ": have " + show_model(got) + " schema <" + vf::show(res.GetSchemaURL(), 60) + "> want " + show_model(want) +
          " schema <" + vf::show(schema, 60) + ">");
}

static void judge_merge(const sdkr::Resource &m, const Model &A, const std::string &sa, const Model &B, const std::string &sb,
                        const std::string &what)
{
  Model want = A;
  for (auto &kv : B)
    want[kv.first] = kv.second;
  Model got = snapshot(m.GetAttributes());
  bool f_wins = false, f_union = false, f_keep = false;
  for (auto &kv : want)
  {
    bool in_a = A.count(kv.first) != 0, in_b = B.count(kv.first) != 0;
    auto it = got.find(kv.first);
    std::string kk = key_kind(kv.first);
    if (it == got.end())
    {
      if (!f_union)
        V("merge-union", std::string("missing-") + (in_a && in_b ? "shared" : (in_a ? "only-in-a" : "only-in-b")) + "/" + kk,
          what + ": key " + vf::show(kv.first, 40) + " missing; a=" + show_model(A) + " b=" + show_model(B) + " got " + show_model(got));
      f_union = true;
    }
    else if (!same_value(it->second, kv.second))
    {
      if (in_a && in_b)
      {
        if (!f_wins)
          V("merge-other-wins", kk + (A.at(kv.first).index() == kv.second.index() ? "/same-type" : "/different-type"),
            what + ": shared key " + vf::show(kv.first, 40) + " a=" + show_value(A.at(kv.first)) + " b=" + show_value(kv.second) +
                " merged=" + show_value(it->second));
        f_wins = true;
      }
      else
      {
        if (!f_keep)
          V("merge-value-preserved", std::string(in_a ? "only-in-a" : "only-in-b") + "/" + type_name(kv.second.index()),
            what + ": key " + vf::show(kv.first, 40) + " want " + show_value(kv.second) + " merged=" + show_value(it->second));
        f_keep = true;
      }
    }
  }
  for (auto &kv : got)
    if (!want.count(kv.first))
    {
      V("merge-union", "extra-key", what + ": key " + vf::show(kv.first, 40) + " in neither input; got " + show_model(got));
      break;
    }
  std::string want_schema = sb.empty() ? sa : sb;
  if (m.GetSchemaURL() != want_schema)
    V("merge-schema-url", sa.empty() ? (sb.empty() ? "both-empty" : "only-b-set") : (sb.empty() ? "only-a-set" : "both-set"),
      what + ": a.schema=<" + vf::show(sa, 60) + "> b.schema=<" + vf::show(sb, 60) + "> merged=<" + vf::show(m.GetSchemaURL(), 60) + ">");
}

static void merge_case(uint64_t seed)
{
  auto &R = vf::report();
  Rng r(seed);
  Model A = gen_model(r), B = gen_model(r);
  // force overlap: some keys of A re-appear in B with a fresh value of the same or another type
  for (auto &kv : A)
    if (r.chance(2, 5))
      B[kv.first] = r.chance(1, 6) ? kv.second : gen_value(r, r.coin() ? static_cast<int>(kv.second.index()) : -1);
  // service.name / process.executable.name of every value type on either side
  if (r.chance(1, 3))
    (r.coin() ? A : B)[kSvc] = gen_value(r);
  if (r.chance(1, 3))
    (r.coin() ? A : B)[kPen] = gen_value(r);
  std::string sa = gen_schema(r), sb = gen_schema(r);
  size_t shared = 0;
  for (auto &kv : A)
    shared += B.count(kv.first);
  R.count("merges");
  R.count("merge_shared_keys", shared);
  if (shared)
    R.count("merges_with_shared_keys");
  if (!sa.empty() && !sb.empty())
    R.count("merge_schema_both_set");
  if (!sa.empty() && sb.empty())
    R.count("merge_schema_only_a_set");
  for (auto &kv : B)
    if (A.count(kv.first) && A[kv.first].index() != kv.second.index())
      R.count("merge_shared_key_type_changes");
  for (auto &kv : A)
    R.count(std::string("merge_value_type:") + type_name(kv.second.index()));

  sdkr::Resource *ra = new sdkr::Resource(RawDetector::Make(build_map(r, A), sa));
  sdkr::Resource *rb = new sdkr::Resource(RawDetector::Make(build_map(r, B), sb));
  check_resource_is(*ra, A, sa, "resource-holds-given-attributes", "a", "resource built from a map");
  check_resource_is(*rb, B, sb, "resource-holds-given-attributes", "b", "resource built from a map");
  sdkr::Resource m = ra->Merge(*rb);
  judge_merge(m, A, sa, B, sb, "a.Merge(b)");
  check_resource_is(*ra, A, sa, "merge-inputs-unchanged", "a", "a after a.Merge(b)");
  check_resource_is(*rb, B, sb, "merge-inputs-unchanged", "b", "b after a.Merge(b)");
  Model mm        = snapshot(m.GetAttributes());
  std::string msu = m.GetSchemaURL();
  unsigned extra  = static_cast<unsigned>(r.below(6));
  if (extra == 0)
  {
    sdkr::Resource s = ra->Merge(*ra);
    judge_merge(s, A, sa, A, sa, "a.Merge(a)");
    R.count("merge_self");
  }
  else if (extra == 1)
  {
    sdkr::Resource e1 = ra->Merge(sdkr::Resource::GetEmpty());
    judge_merge(e1, A, sa, Model(), "", "a.Merge(empty)");
    sdkr::Resource e2 = sdkr::Resource::GetEmpty().Merge(*rb);
    judge_merge(e2, Model(), "", B, sb, "empty.Merge(b)");
    check_resource_is(sdkr::Resource::GetEmpty(), Model(), "", "merge-inputs-unchanged", "empty-singleton", "GetEmpty() after merges");
    R.count("merge_with_empty");
  }
  else if (extra == 2)
  {
    Model D;
    D["telemetry.sdk.language"] = Owned(std::string("cpp"));
    D["telemetry.sdk.name"]     = Owned(std::string("opentelemetry"));
    D["telemetry.sdk.version"]  = Owned(std::string(OPENTELEMETRY_VERSION));
    check_resource_is(sdkr::Resource::GetDefault(), D, "", "default-resource", "sdk-defaults", "GetDefault()");
    sdkr::Resource d = sdkr::Resource::GetDefault().Merge(*rb);
    judge_merge(d, D, "", B, sb, "default.Merge(b)");
    check_resource_is(sdkr::Resource::GetDefault(), D, "", "merge-inputs-unchanged", "default-singleton", "GetDefault() after a merge");
    R.count("merge_with_default");
  }
  else if (extra == 3)
  {
    Model Cm      = gen_model(r, 5);
    std::string sc = gen_schema(r);
    for (auto &kv : mm)
      if (r.chance(1, 3))
        Cm[kv.first] = gen_value(r);
    sdkr::Resource rc = RawDetector::Make(build_map(r, Cm), sc);
    sdkr::Resource ch = m.Merge(rc);
    judge_merge(ch, mm, msu, Cm, sc, "(a.Merge(b)).Merge(c)");
    R.count("merge_chains");
  }
  // the result owns its data: the inputs die, the result must still read the same
  delete ra;
  delete rb;
  check_resource_is(m, mm, msu, "merge-result-owned", "after-inputs-destroyed", "merged resource after both inputs were destroyed");
  uint64_t h = vf::fnv1a(sa + "|" + sb);
  for (auto &kv : A)
    h = vf::mix(h, vf::fnv1a(kv.first) ^ vf::fnv1a(show_value(kv.second)));
  for (auto &kv : B)
    h = vf::mix(h, vf::fnv1a(kv.first) * 3 ^ vf::fnv1a(show_value(kv.second)));
  R.nontrivial(h);
  if (R.want_sample(3) && r.chance(1, 30))
    R.sample("merge a=" + show_model(A) + " schema<" + vf::show(sa, 30) + "> b=" + show_model(B) + " schema<" + vf::show(sb, 30) + ">");
}

// ------------------------------------------------------------------------------------------
// independent model of OTEL_RESOURCE_ATTRIBUTES / OTEL_SERVICE_NAME
//
// Documented syntax: key1=value1,key2=value2 (specification: ',' and '=' inside keys/values must
// be percent-encoded; on any error the whole variable SHOULD be discarded).  Three-valued:
//   well-formed token  k=v, k and v non-empty, bytes 0x21..0x7e without ',', '=', '%'
//                      -> the pair must come out exactly
//   hard-malformed     no '=' at all, or an empty token -> must contribute nothing
//   soft (don't-care)  edge whitespace, '%', several '=', empty key, empty value, other bytes
//                      -> absent, or any of the readings (raw / trimmed / percent-decoded)
// If any token is not well-formed the reader may also discard the whole variable.  Repeated
// keys: any one of the given values.  Nothing else may appear (no partial pairs).
// ------------------------------------------------------------------------------------------
static std::string trim_ows(const std::string &s)
{
  size_t b = 0, e = s.size();
  while (b < e && (s[b] == ' ' || s[b] == '\t'))
    ++b;
  while (e > b && (s[e - 1] == ' ' || s[e - 1] == '\t'))
    --e;
  return s.substr(b, e - b);
}
static bool pct_decode(const std::string &s, std::string &out)
{
  out.clear();
  for (size_t i = 0; i < s.size(); ++i)
  {
    if (s[i] != '%')
    {
      out.push_back(s[i]);
      continue;
    }
    if (i + 2 >= s.size())
      return false;
    if (!is_hex(s[i + 1]) || !is_hex(s[i + 2]))
      return false;
    auto hv = [](char c) { return is_dg(c) ? c - '0' : (c | 0x20) - 'a' + 10; };
    out.push_back(static_cast<char>(hv(s[i + 1]) * 16 + hv(s[i + 2])));
    i += 2;
  }
  return true;
}
static std::set<std::string> variants(const std::string &raw)
{
  std::set<std::string> v;
  v.insert(raw);
  std::string t = trim_ows(raw), d;
  v.insert(t);
  if (pct_decode(raw, d))
  {
    v.insert(d);
    v.insert(trim_ows(d));
  }
  if (pct_decode(t, d))
    v.insert(d);
  return v;
}
static bool clean_bytes(const std::string &s)
{
  for (char c : s)
    if (c < 0x21 || c > 0x7e || c == ',' || c == '=' || c == '%')
      return false;
  return true;
}

struct ListModel
{
  bool set = false;  // variable present and non-empty
  std::map<std::string, std::set<std::string>> allowed;
  std::set<std::string> required;
  bool discard_ok = false;
  bool repeated   = false;
  size_t soft = 0, hard = 0, wellformed = 0;
  std::string cls = "unset";
  std::map<std::string, std::string> key_cls;  // class of the token that introduced a key reading
};
static int cls_rank(const std::string &c)
{
  static const char *order[] = {"canonical",   "repeated-key", "other-bytes", "whitespace", "percent",
                                "empty-value", "empty-key",    "multi-eq",    "empty-token", "missing-eq"};
  for (int i = 0; i < 10; ++i)
    if (c == order[i])
      return i;
  return -1;
}
static ListModel list_model(const std::string *value)
{
  ListModel m;
  if (!value || value->empty())
  {
    m.cls = value ? "empty" : "unset";
    return m;
  }
  m.set = true;
  m.cls = "canonical";
  auto worse = [&](const std::string &c) {
    if (cls_rank(c) > cls_rank(m.cls))
      m.cls = c;
  };
  size_t pos = 0;
  const std::string &s = *value;
  while (true)
  {
    size_t comma    = s.find(',', pos);
    std::string tok = s.substr(pos, comma == std::string::npos ? std::string::npos : comma - pos);
    size_t eq       = tok.find('=');
    if (tok.empty())
    {
      ++m.hard;
      worse("empty-token");
    }
    else if (eq == std::string::npos)
    {
      ++m.hard;
      // a token of blanks only is an empty list member rather than a broken pair
      worse(trim_ows(tok).empty() ? "empty-token" : "missing-eq");
    }
    else
    {
      std::string k = tok.substr(0, eq), v = tok.substr(eq + 1);
      std::string tc;
      if (v.find('=') != std::string::npos)
        tc = "multi-eq";
      else if (k.empty())
        tc = "empty-key";
      else if (v.empty())
        tc = "empty-value";
      else if (k.find('%') != std::string::npos || v.find('%') != std::string::npos)
        tc = "percent";
      else if (trim_ows(k) != k || trim_ows(v) != v)
        tc = "whitespace";
      else if (!clean_bytes(k) || !clean_bytes(v))
        tc = "other-bytes";
      if (tc.empty())
      {
        ++m.wellformed;
        if (m.allowed.count(k))
        {
          m.repeated = true;
          worse("repeated-key");
        }
        m.allowed[k].insert(v);
        m.required.insert(k);
        if (!m.key_cls.count(k))
          m.key_cls[k] = "canonical";
      }
      else
      {
        ++m.soft;
        worse(tc);
        for (auto &kv : variants(k))
          for (auto &vv : variants(v))
          {
            if (m.allowed.count(kv) && m.required.count(kv))
              m.repeated = true;
            m.allowed[kv].insert(vv);
            if (!m.key_cls.count(kv))
              m.key_cls[kv] = tc;
          }
      }
    }
    if (comma == std::string::npos)
      break;
    pos = comma + 1;
  }
  m.discard_ok = m.soft + m.hard > 0;
  return m;
}

static std::string gen_list_key(Rng &r)
{
  static const char *pool[] = {"service.name", "process.executable.name", "telemetry.sdk.name", "telemetry.sdk.language",
                               "telemetry.sdk.version", "k1", "k2", "k3", "k4", "k5", "k6", "a.b.c", "K1", "deployment.environment"};
  return r.chance(5, 6) ? std::string(r.pick(pool)) : r.bytes(static_cast<size_t>(r.range(1, 8)), "abkz019._-");
}
static std::string gen_list_value(Rng &r)
{
  if (r.chance(1, 60))
    return r.bytes(static_cast<size_t>(r.range(2000, 6000)), "abcdefgh0123");
  return r.bytes(static_cast<size_t>(r.range(1, 12)), "abcXYZ019_-./:;@!~*+");
}
// `clean` = percentage of well-formed tokens
static std::string gen_attr_list(Rng &r, unsigned clean)
{
  if (r.chance(1, 25))
    return r.bytes(static_cast<size_t>(r.range(0, 30)), "ab=,% \t19.");
  size_t n = static_cast<size_t>(r.range(1, 8));
  std::vector<std::string> keys;
  std::string out;
  bool all_clean = r.below(100) < clean;
  for (size_t i = 0; i < n; ++i)
  {
    std::string k = gen_list_key(r), v = gen_list_value(r), tok;
    unsigned c = static_cast<unsigned>(r.below(100));
    if (all_clean)
      c = c < 12 ? 75 : 0;  // only well-formed tokens, some with a repeated key
    if (c < 70)
      tok = k + "=" + v;
    else if (c < 78 && !keys.empty())
      tok = r.pick(keys) + "=" + v;
    else if (c < 83)
      tok = r.coin() ? k : (r.coin() ? "broken" : v);
    else if (c < 86)
      tok = r.chance(1, 3) ? " " : "";
    else if (c < 89)
    {
      static const char *ws[] = {" ", "\t", "  "};
      tok = (r.coin() ? r.pick(ws) : "") + k + (r.coin() ? r.pick(ws) : "") + "=" + (r.coin() ? r.pick(ws) : "") + v + (r.coin() ? r.pick(ws) : "");
    }
    else if (c < 92)
    {
      static const char *pc[] = {"%41b", "100%", "%zz", "a%2Cb", "%3D", "%", "%4", "x%20y", "%e4%bd%a0"};
      tok = k + "=" + r.pick(pc);
    }
    else if (c < 94)
      tok = k + "=" + v + "=" + gen_list_value(r);
    else if (c < 96)
      tok = "=" + v;
    else if (c < 98)
      tok = k + "=";
    else if (c < 99)
      tok = k + "=my app";
    else
      tok = k + "=" + no_nul(r.anybytes(static_cast<size_t>(r.range(1, 6))));
    // generated tokens never contain a separator by accident
    for (auto &ch : tok)
      if (ch == ',')
        ch = ';';
    keys.push_back(k);
    if (i)
      out += ",";
    out += tok;
  }
  if (!all_clean && r.chance(1, 15))
    out += ",";
  if (!all_clean && r.chance(1, 30))
    out = "," + out;
  return no_nul(out);
}
static bool gen_service_name(Rng &r, std::string &out)
{
  unsigned c = static_cast<unsigned>(r.below(100));
  if (c < 45)
    return false;  // unset
  if (c < 52)
    out = "";
  else if (c < 85)
    out = r.bytes(static_cast<size_t>(r.range(1, 16)), "abcXYZ019_-.");
  else if (c < 90)
    out = "a=b,c=d";  // separators mean nothing here
  else if (c < 94)
    out = " padded ";
  else if (c < 97)
    out = "my service";
  else
    out = no_nul(r.anybytes(static_cast<size_t>(r.range(1, 10))));
  return true;
}

struct SvcModel
{
  bool set = false;
  std::set<std::string> allowed;
  bool soft = false;
};
static SvcModel svc_model(const std::string *v)
{
  SvcModel m;
  if (!v || v->empty())
    return m;
  m.set = true;
  m.allowed.insert(*v);
  if (trim_ows(*v) != *v)
  {
    m.allowed.insert(trim_ows(*v));
    m.soft = true;
  }
  return m;
}

// Compare what the environment contributed (`got`: string attributes keyed by name, service.name
// already judged and removed when OTEL_SERVICE_NAME is set) with the model.  `prefix` = assertion
// family ("detect" or "create-env").
static void judge_env_attrs(const std::map<std::string, std::string> &got, const ListModel &lm, const std::set<std::string> &ignore,
                            const std::string &prefix, const std::string &what)
{
  bool any_missing = false, any_present = false;
  std::string missing;
  for (auto &k : lm.required)
  {
    if (ignore.count(k))
      continue;
    if (got.count(k))
      any_present = true;
    else
    {
      any_missing = true;
      missing     = k;
    }
  }
  for (auto &kv : got)
  {
    if (ignore.count(kv.first))
      continue;
    auto it = lm.allowed.find(kv.first);
    if (it == lm.allowed.end())
    {
      V(prefix + "-no-partial", lm.cls, what + ": key " + vf::show(kv.first, 60) + "=<" + vf::show(kv.second, 60) + "> does not come from any key=value pair of the variable");
      return;
    }
    if (!it->second.count(kv.second))
    {
      auto kc = lm.key_cls.find(kv.first);
      V(prefix + "-exact-or-default", kc == lm.key_cls.end() ? lm.cls : (lm.repeated && kc->second == "canonical" ? "repeated-key" : kc->second),
        what + ": key " + vf::show(kv.first, 60) + " has value <" + vf::show(kv.second, 60) + ">, not a value given for it");
      return;
    }
  }
  if (any_missing)
  {
    bool discarded = lm.discard_ok && !any_present;
    for (auto &kv : got)
      if (!ignore.count(kv.first))
        discarded = false;
    if (discarded)
      C(prefix + "_whole_variable_discarded");
    else
      V(prefix + "-exact-or-default", lm.cls, what + ": well-formed pair with key " + vf::show(missing, 60) + " is missing");
  }
}

// ------------------------------------------------------------------------------------------
// engine "detect"
// ------------------------------------------------------------------------------------------
static void count_list(const ListModel &lm, const SvcModel &sm, const char *p)
{
  std::string pre = p;
  C(pre + "_lists:" + lm.cls);
  if (lm.set && lm.cls == "canonical")
    C(pre + "_lists_canonical");
  if (lm.repeated)
    C(pre + "_lists_repeated_key");
  if (lm.hard)
    C(pre + "_lists_hard_malformed");
  if (lm.soft)
    C(pre + "_lists_dontcare_tokens");
  if (sm.set)
    C(pre + "_service_name_set");
  if (sm.set && lm.allowed.count(kSvc))
    C(pre + "_service_name_over_attributes");
  if (sm.soft)
    C(pre + "_service_name_dontcare");
}

static void detect_case(uint64_t seed)
{
  auto &R = vf::report();
  Rng r(seed);
  bool have_attrs = r.chance(9, 10);
  std::string attrs, svc;
  if (have_attrs)
    attrs = r.chance(1, 30) ? "" : gen_attr_list(r, 45);
  bool have_svc = gen_service_name(r, svc);
  // make the override case common: service.name inside the list too
  if (have_attrs && have_svc && !attrs.empty() && r.chance(1, 3))
    attrs += ",service.name=from_attributes";
  ListModel lm = list_model(have_attrs ? &attrs : nullptr);
  SvcModel sm  = svc_model(have_svc ? &svc : nullptr);
  R.count("detect_cases");
  count_list(lm, sm, "detect");
  std::map<std::string, std::string> got;
  std::string schema;
  bool typed_ok = true;
  std::string bad_type;
  {
    EnvVar e1("OTEL_RESOURCE_ATTRIBUTES", have_attrs ? &attrs : nullptr);
    EnvVar e2("OTEL_SERVICE_NAME", have_svc ? &svc : nullptr);
    errno = pick_errno(r);
    sdkr::OTELResourceDetector det;
    sdkr::Resource res = det.Detect();
    for (auto &kv : res.GetAttributes())
    {
      if (kv.second.index() != sdkc::kTypeString)
      {
        typed_ok = false;
        bad_type = kv.first;
        continue;
      }
      got[kv.first] = nostd::get<std::string>(kv.second);
    }
    schema = res.GetSchemaURL();
  }
  std::string what = "OTEL_RESOURCE_ATTRIBUTES=" + (have_attrs ? "<" + vf::show(attrs, 200) + ">" : std::string("(unset)")) +
                     " OTEL_SERVICE_NAME=" + (have_svc ? "<" + vf::show(svc, 60) + ">" : std::string("(unset)"));
  std::string gs = "{";
  for (auto &kv : got)
    gs += vf::show(kv.first, 30) + "=<" + vf::show(kv.second, 30) + ">,";
  what += " detected " + gs + "}";
  if (!typed_ok)
    V("detect-value-type", "non-string", what + ": key " + vf::show(bad_type, 40) + " is not a string");
  std::set<std::string> ignore;
  if (sm.set)
  {
    auto it = got.find(kSvc);
    if (it == got.end() || !sm.allowed.count(it->second))
      V("detect-service-name-wins", lm.allowed.count(kSvc) ? "over-attributes" : "alone", what);
    ignore.insert(kSvc);
  }
  judge_env_attrs(got, lm, ignore, "detect", what);
  R.nontrivial(vf::fnv1a(attrs + "\x01" + svc + (have_attrs ? "a" : "-") + (have_svc ? "s" : "-")));
  if (R.want_sample(4) && r.chance(1, 40))
    R.sample("detect " + what.substr(0, 240));
}

// ------------------------------------------------------------------------------------------
// engine "create": one forked child per environment, several Resource::Create calls inside
// ------------------------------------------------------------------------------------------
static Model sdk_defaults()
{
  Model D;
  D["telemetry.sdk.language"] = Owned(std::string("cpp"));
  D["telemetry.sdk.name"]     = Owned(std::string("opentelemetry"));
  D["telemetry.sdk.version"]  = Owned(std::string(OPENTELEMETRY_VERSION));
  return D;
}

// class of one Create call, computed from the inputs only
static std::string create_class(const Model &caller, const ListModel &lm, const SvcModel &sm)
{
  if (caller.count(kSvc))
    return "service.name-from-caller";
  if (sm.set)
    return "service.name-from-OTEL_SERVICE_NAME";
  if (lm.allowed.count(kSvc))
    return "service.name-from-OTEL_RESOURCE_ATTRIBUTES";
  auto it = caller.find(kPen);
  if (it != caller.end())
    return it->second.index() == sdkc::kTypeString ? "fallback-with-executable-name" : "process.executable.name-non-string";
  if (lm.allowed.count(kPen))
    return "fallback-with-executable-name-from-env";
  return "fallback-plain";
}

static void judge_create(const sdkr::Resource &res, const Model &caller, const std::string &schema, const ListModel &lm,
                         const SvcModel &sm, const std::string &cls, const std::string &what)
{
  Model got = snapshot(res.GetAttributes());
  Model D   = sdk_defaults();
  std::string w = what + " -> " + show_model(got);
  // environment part, seen through the keys the caller did not override
  std::map<std::string, std::string> envgot;
  std::set<std::string> ignore;
  for (auto &kv : caller)
    ignore.insert(kv.first);
  if (sm.set)
    ignore.insert(kSvc);
  bool flagged_extra = false;
  for (auto &kv : got)
  {
    const std::string &k = kv.first;
    auto ci              = caller.find(k);
    if (ci != caller.end())
    {
      if (!same_value(ci->second, kv.second))
      {
        bool env_has = lm.allowed.count(k) || (k == kSvc && sm.set);
        V("create-precedence", env_has ? "caller-over-env" : (D.count(k) ? "caller-over-default" : "caller-value"),
          w + ": key " + vf::show(k, 40) + " want the caller's " + show_value(ci->second));
      }
      continue;
    }
    if (k == kSvc && sm.set)
    {
      if (kv.second.index() != sdkc::kTypeString || !sm.allowed.count(nostd::get<std::string>(kv.second)))
        V("create-precedence", lm.allowed.count(kSvc) ? "OTEL_SERVICE_NAME-over-attributes" : "OTEL_SERVICE_NAME-over-default", w);
      continue;
    }
    if (lm.allowed.count(k))
    {
      if (kv.second.index() == sdkc::kTypeString && lm.allowed.at(k).count(nostd::get<std::string>(kv.second)))
      {
        envgot[k] = nostd::get<std::string>(kv.second);
        continue;
      }
      // not an environment value: acceptable only as the untouched default when the variable may be discarded
      if (D.count(k) && same_value(D[k], kv.second) && (lm.discard_ok || !lm.required.count(k)))
        continue;
      if (k == kSvc && (lm.discard_ok || !lm.required.count(k)))
        ;  // falls through to the fallback check below
      else
      {
        V("create-precedence", D.count(k) ? "env-over-default" : "env-value",
          w + ": key " + vf::show(k, 40) + " has " + show_value(kv.second) + ", not a value given in OTEL_RESOURCE_ATTRIBUTES");
        continue;
      }
    }
    if (D.count(k))
    {
      if (!same_value(D[k], kv.second))
        V("create-has-sdk-defaults", "value", w + ": key " + vf::show(k, 40) + " want default " + show_value(D[k]));
      continue;
    }
    if (k == kSvc)
    {
      bool ok = kv.second.index() == sdkc::kTypeString && nostd::get<std::string>(kv.second).rfind("unknown_service", 0) == 0;
      if (!ok)
        V("create-service-name-fallback", cls, w + ": fallback service.name is " + show_value(kv.second));
      else
        C("create_fallback_service_name");
      continue;
    }
    if (!flagged_extra)
      V("create-no-extra-keys", cls, w + ": key " + vf::show(k, 40) + " comes from no source");
    flagged_extra = true;
  }
  for (auto &kv : caller)
    if (!got.count(kv.first))
    {
      V("create-precedence", "caller-key-missing", w + ": caller key " + vf::show(kv.first, 40) + " missing");
      break;
    }
  for (auto &kv : D)
    if (!got.count(kv.first))
    {
      V("create-has-sdk-defaults", "missing", w + ": " + kv.first + " missing");
      break;
    }
  if (!got.count(kSvc))
    V("create-has-service-name", cls, w);
  judge_env_attrs(envgot, lm, ignore, "create-env", w);
  if (res.GetSchemaURL() != schema)
    V("create-schema-url", schema.empty() ? "empty" : "set", w + ": schema <" + vf::show(res.GetSchemaURL(), 60) + "> want <" + vf::show(schema, 60) + ">");
  // coverage
  for (auto &kv : caller)
  {
    if (lm.required.count(kv.first) || (kv.first == kSvc && sm.set))
      C("create_caller_over_env_keys");
    if (D.count(kv.first))
      C("create_caller_over_default_keys");
  }
  for (auto &k : lm.required)
    if (D.count(k) && !caller.count(k))
      C("create_env_over_default_keys");
}

static void create_child_body(uint64_t seed, bool have_attrs, const std::string &attrs, bool have_svc, const std::string &svc)
{
  Rng r(vf::mix(seed, 77));
  if (have_attrs)
    setenv("OTEL_RESOURCE_ATTRIBUTES", attrs.c_str(), 1);
  else
    unsetenv("OTEL_RESOURCE_ATTRIBUTES");
  if (have_svc)
    setenv("OTEL_SERVICE_NAME", svc.c_str(), 1);
  else
    unsetenv("OTEL_SERVICE_NAME");
  ListModel lm = list_model(have_attrs ? &attrs : nullptr);
  SvcModel sm  = svc_model(have_svc ? &svc : nullptr);
  std::string envs = "OTEL_RESOURCE_ATTRIBUTES=" + (have_attrs ? "<" + vf::show(attrs, 160) + ">" : std::string("(unset)")) +
                     " OTEL_SERVICE_NAME=" + (have_svc ? "<" + vf::show(svc, 40) + ">" : std::string("(unset)"));
  size_t ncalls = static_cast<size_t>(r.range(4, 8));
  for (size_t i = 0; i < ncalls; ++i)
  {
    Model caller;
    unsigned c = static_cast<unsigned>(r.below(100));
    if (c < 12)
      ;  // Create({})
    else
    {
      caller = gen_model(r, 6);
      caller.erase(kSvc);
      caller.erase(kPen);
      // keys that the environment / the defaults also provide
      for (auto &k : lm.required)
        if (r.chance(1, 3) && k != kSvc && k != kPen)
          caller[k] = gen_value(r, r.coin() ? 5 : -1);
      if (r.chance(1, 4))
        caller["telemetry.sdk.name"] = gen_value(r, r.coin() ? 5 : -1);
      if (r.chance(1, 3))
        caller[kSvc] = gen_value(r, r.chance(3, 4) ? 5 : -1);
      if (r.chance(1, 2))
        caller[kPen] = gen_value(r, r.chance(1, 2) ? 5 : -1);
    }
    std::string schema = gen_schema(r);
    std::string cls    = create_class(caller, lm, sm);
    child_emit('B', cls, "", "");
    C("create_calls");
    C("create_calls:" + cls);
    std::string what = envs + " Create(" + show_model(caller) + ", schema<" + vf::show(schema, 30) + ">)";
    try
    {
      sdkr::ResourceAttributes in = build_map(r, caller);
      errno                       = pick_errno(r);
      sdkr::Resource res          = sdkr::Resource::Create(in, schema);
      in.clear();
      judge_create(res, caller, schema, lm, sm, cls, what);
    }
    catch (const std::exception &e)
    {
      V("create-total", cls, what + " threw " + e.what());
    }
    catch (...)
    {
      V("create-total", cls, what + " threw a non-standard exception");
    }
    child_emit('N', std::to_string(vf::fnv1a(what)), "", "");
  }
}

static void create_case(uint64_t seed)
{
  auto &R = vf::report();
  Rng r(seed);
  bool have_attrs = r.chance(4, 5);
  std::string attrs, svc;
  if (have_attrs)
    attrs = gen_attr_list(r, 75);
  bool have_svc = gen_service_name(r, svc);
  if (have_attrs && have_svc && !attrs.empty() && r.chance(1, 3))
    attrs += ",service.name=from_attributes";
  if (have_attrs && !attrs.empty() && r.chance(1, 4))
    attrs += ",telemetry.sdk.name=from_env";
  ListModel lm = list_model(have_attrs ? &attrs : nullptr);
  SvcModel sm  = svc_model(have_svc ? &svc : nullptr);
  R.count("create_children");
  count_list(lm, sm, "create");
  // fork + exec of this executable: a fresh process whose Resource::Create has certainly never
  // run (in the parent an SDK path such as ReadableLogRecord::GetDefaultResource() may have
  // initialised the function-local static already)
  ChildOut co = run_child([&] {
    if (have_attrs)
      setenv("OTEL_RESOURCE_ATTRIBUTES", attrs.c_str(), 1);
    else
      unsetenv("OTEL_RESOURCE_ATTRIBUTES");
    if (have_svc)
      setenv("OTEL_SERVICE_NAME", svc.c_str(), 1);
    else
      unsetenv("OTEL_SERVICE_NAME");
    std::string fd = std::to_string(g_child_fd), sd = std::to_string(seed);
    std::string fl = std::string(have_attrs ? "a" : "-") + (have_svc ? "s" : "-");
    char a0[] = "c18_resource_env", a1[] = "--c18-create-child";
    char *av[] = {a0, a1, &fd[0], &sd[0], &fl[0], nullptr};
    execv("/proc/self/exe", av);
    fprintf(stderr, "c18: execv failed: %s\n", strerror(errno));
    _exit(8);
  });
  std::string last_cls = "before-first-call";
  for (auto &rec : co.recs)
  {
    switch (rec.type)
    {
      case 'V':
        R.violation(rec.a, rec.b, rec.c);
        break;
      case 'C':
        R.count(rec.a, strtoull(rec.b.c_str(), nullptr, 10));
        break;
      case 'B':
        last_cls = rec.a;
        break;
      case 'N':
        R.nontrivial(strtoull(rec.a.c_str(), nullptr, 10));
        break;
    }
  }
  if (!co.done)
    R.violation("create-total", last_cls,
                "child process running Resource::Create died (" + co.how() + ") with OTEL_RESOURCE_ATTRIBUTES=" +
                    (have_attrs ? "<" + vf::show(attrs, 160) + ">" : std::string("(unset)")) + " OTEL_SERVICE_NAME=" +
                    (have_svc ? "<" + vf::show(svc, 40) + ">" : std::string("(unset)")) + "; stderr: " + co.err.substr(0, 900));
  if (R.want_sample(5) && r.chance(1, 4))
    R.sample("create child: OTEL_RESOURCE_ATTRIBUTES=<" + vf::show(attrs, 100) + "> OTEL_SERVICE_NAME=<" + vf::show(svc, 30) + ">");
}

// ------------------------------------------------------------------------------------------
// engine "providers": what exporters / readers see is the provider's resource
// ------------------------------------------------------------------------------------------
struct SeenRes
{
  const sdkr::Resource *ptr = nullptr;
  Model attrs;
  std::string schema;
};
struct SeenList
{
  std::vector<SeenRes> items;
  void add(const sdkr::Resource *p)
  {
    SeenRes s;
    s.ptr = p;
    if (p)
    {
      s.attrs  = snapshot(p->GetAttributes());  // deep copy at export time
      s.schema = p->GetSchemaURL();
    }
    items.push_back(std::move(s));
  }
};

class TagSpan final : public sdkt::Recordable
{
public:
  const sdkr::Resource *res = nullptr;
  void SetIdentity(const trace_api::SpanContext &, trace_api::SpanId) noexcept override {}
  void SetAttribute(nostd::string_view, const opentelemetry::common::AttributeValue &) noexcept override {}
  void AddEvent(nostd::string_view, opentelemetry::common::SystemTimestamp,
                const opentelemetry::common::KeyValueIterable &) noexcept override
  {}
  void AddLink(const trace_api::SpanContext &, const opentelemetry::common::KeyValueIterable &) noexcept override {}
  void SetStatus(trace_api::StatusCode, nostd::string_view) noexcept override {}
  void SetName(nostd::string_view) noexcept override {}
  void SetSpanKind(trace_api::SpanKind) noexcept override {}
  void SetResource(const sdkr::Resource &r) noexcept override { res = &r; }
  void SetStartTime(opentelemetry::common::SystemTimestamp) noexcept override {}
  void SetDuration(std::chrono::nanoseconds) noexcept override {}
  void SetInstrumentationScope(const opentelemetry::sdk::instrumentationscope::InstrumentationScope &) noexcept override {}
};

class SpanExp final : public sdkt::SpanExporter
{
public:
  SpanExp(SeenList *s, bool custom) : seen_(s), custom_(custom) {}
  std::unique_ptr<sdkt::Recordable> MakeRecordable() noexcept override
  {
    if (custom_)
      return std::unique_ptr<sdkt::Recordable>(new TagSpan);
    return std::unique_ptr<sdkt::Recordable>(new sdkt::SpanData);
  }
  sdkc::ExportResult Export(const nostd::span<std::unique_ptr<sdkt::Recordable>> &spans) noexcept override
  {
    for (auto &rec : spans)
    {
      if (custom_)
        seen_->add(static_cast<TagSpan *>(rec.get())->res);
      else
        seen_->add(&static_cast<sdkt::SpanData *>(rec.get())->GetResource());
    }
    return sdkc::ExportResult::kSuccess;
  }
  bool ForceFlush(std::chrono::microseconds) noexcept override { return true; }
  bool Shutdown(std::chrono::microseconds) noexcept override { return true; }

private:
  SeenList *seen_;
  bool custom_;
};

class TagLog final : public sdkl::Recordable
{
public:
  const sdkr::Resource *res = nullptr;
  void SetTimestamp(opentelemetry::common::SystemTimestamp) noexcept override {}
  void SetObservedTimestamp(opentelemetry::common::SystemTimestamp) noexcept override {}
  void SetSeverity(logs_api::Severity) noexcept override {}
  void SetBody(const opentelemetry::common::AttributeValue &) noexcept override {}
  void SetAttribute(nostd::string_view, const opentelemetry::common::AttributeValue &) noexcept override {}
  void SetEventId(int64_t, nostd::string_view) noexcept override {}
  void SetTraceId(const trace_api::TraceId &) noexcept override {}
  void SetSpanId(const trace_api::SpanId &) noexcept override {}
  void SetTraceFlags(const trace_api::TraceFlags &) noexcept override {}
  void SetResource(const sdkr::Resource &r) noexcept override { res = &r; }
  void SetInstrumentationScope(const opentelemetry::sdk::instrumentationscope::InstrumentationScope &) noexcept override {}
};

class LogExp final : public sdkl::LogRecordExporter
{
public:
  LogExp(SeenList *s, bool custom) : seen_(s), custom_(custom) {}
  std::unique_ptr<sdkl::Recordable> MakeRecordable() noexcept override
  {
    if (custom_)
      return std::unique_ptr<sdkl::Recordable>(new TagLog);
    return std::unique_ptr<sdkl::Recordable>(new sdkl::ReadWriteLogRecord);
  }
  sdkc::ExportResult Export(const nostd::span<std::unique_ptr<sdkl::Recordable>> &records) noexcept override
  {
    for (auto &rec : records)
    {
      if (custom_)
        seen_->add(static_cast<TagLog *>(rec.get())->res);
      else
        seen_->add(&static_cast<sdkl::ReadWriteLogRecord *>(rec.get())->GetResource());
    }
    return sdkc::ExportResult::kSuccess;
  }
  bool ForceFlush(std::chrono::microseconds) noexcept override { return true; }
  bool Shutdown(std::chrono::microseconds) noexcept override { return true; }

private:
  SeenList *seen_;
  bool custom_;
};

class PullReader final : public sdkm::MetricReader
{
public:
  sdkm::AggregationTemporality GetAggregationTemporality(sdkm::InstrumentType) const noexcept override
  {
    return sdkm::AggregationTemporality::kCumulative;
  }

private:
  bool OnForceFlush(std::chrono::microseconds) noexcept override { return true; }
  bool OnShutDown(std::chrono::microseconds) noexcept override { return true; }
};

static void judge_seen(const SeenList &seen, size_t want_n, const sdkr::Resource *provider_res, const Model &want, const std::string &schema,
                       const std::string &signal, const std::string &how)
{
  if (seen.items.size() != want_n)
    V("provider-exports-arrive", signal, how + ": " + std::to_string(seen.items.size()) + " items reached the exporter, want " + std::to_string(want_n));
  for (auto &s : seen.items)
  {
    if (!s.ptr)
    {
      V("export-references-provider-resource", signal + "/resource-never-set", how);
      return;
    }
    if (s.ptr == provider_res)
      C("provider_resource_identity_" + signal);
    if (!same_model(s.attrs, want) || s.schema != schema)
    {
      V("export-references-provider-resource", signal + "/" + how.substr(0, how.find('+')),
        how + ": resource at the exporter " + show_model(s.attrs) + " schema<" + vf::show(s.schema, 40) + "> want " + show_model(want) + " schema<" +
            vf::show(schema, 40) + ">");
      return;
    }
  }
}

static void provider_case(uint64_t seed)
{
  auto &R = vf::report();
  Rng r(seed);
  Model A            = gen_model(r, 8);
  std::string schema = gen_schema(r);
  if (r.chance(1, 2))
    A[kSvc] = gen_value(r, r.chance(3, 4) ? 5 : -1);
  Model D = sdk_defaults();
  unsigned signal = static_cast<unsigned>(r.below(3));
  bool custom     = r.coin();
  bool via_ctx    = r.coin();
  bool two        = r.chance(1, 3);
  std::string how = std::string(custom ? "custom-recordable" : "sdk-recordable") + (via_ctx ? "+context-ctor" : "+provider-ctor") + (two ? "+two-pipelines" : "");
  // the caller's Resource object dies before anything is recorded; a second, different resource
  // lives on so that a provider falling back to some other resource is noticed
  std::unique_ptr<sdkr::Resource> mine(new sdkr::Resource(RawDetector::Make(build_map(r, A), schema)));
  Model other_m;
  other_m["other"] = Owned(std::string("resource"));
  sdkr::Resource other = RawDetector::Make(build_map(r, other_m), "https://other");
  R.count("provider_cases");
  if (signal == 0)
  {
    SeenList seen1, seen2;
    std::vector<std::unique_ptr<sdkt::SpanProcessor>> procs;
    procs.emplace_back(new sdkt::SimpleSpanProcessor(std::unique_ptr<sdkt::SpanExporter>(new SpanExp(&seen1, custom))));
    if (two)
      procs.emplace_back(new sdkt::SimpleSpanProcessor(std::unique_ptr<sdkt::SpanExporter>(new SpanExp(&seen2, !custom))));
    std::unique_ptr<sdkt::TracerProvider> tp;
    if (via_ctx)
      tp.reset(new sdkt::TracerProvider(std::unique_ptr<sdkt::TracerContext>(new sdkt::TracerContext(std::move(procs), *mine))));
    else
      tp.reset(new sdkt::TracerProvider(std::move(procs), *mine));
    mine.reset();
    size_t n = static_cast<size_t>(r.range(1, 4));
    {
      auto t1 = tp->GetTracer("c18.tracer");
      auto t2 = tp->GetTracer("c18.other", "1.0");
      for (size_t i = 0; i < n; ++i)
      {
        auto sp = (i & 1 ? t2 : t1)->StartSpan("s");
        sp->End();
      }
    }
    check_resource_is(tp->GetResource(), A, schema, "provider-holds-given-resource", "trace", "TracerProvider::GetResource()");
    judge_seen(seen1, n, &tp->GetResource(), A, schema, "span", how);
    if (two)
      judge_seen(seen2, n, &tp->GetResource(), A, schema, "span", how);
    R.count("provider_spans", seen1.items.size() + seen2.items.size());
  }
  else if (signal == 1)
  {
    SeenList seen1, seen2;
    std::vector<std::unique_ptr<sdkl::LogRecordProcessor>> procs;
    procs.emplace_back(new sdkl::SimpleLogRecordProcessor(std::unique_ptr<sdkl::LogRecordExporter>(new LogExp(&seen1, custom))));
    if (two)
      procs.emplace_back(new sdkl::SimpleLogRecordProcessor(std::unique_ptr<sdkl::LogRecordExporter>(new LogExp(&seen2, !custom))));
    std::unique_ptr<sdkl::LoggerProvider> lp;
    if (via_ctx)
      lp.reset(new sdkl::LoggerProvider(std::unique_ptr<sdkl::LoggerContext>(new sdkl::LoggerContext(std::move(procs), *mine))));
    else
      lp.reset(new sdkl::LoggerProvider(std::move(procs), *mine));
    mine.reset();
    size_t n = static_cast<size_t>(r.range(1, 4));
    {
      auto lg = lp->GetLogger("c18.logger", "c18.lib");
      for (size_t i = 0; i < n; ++i)
        lg->EmitLogRecord(logs_api::Severity::kInfo, "body");
    }
    check_resource_is(lp->GetResource(), A, schema, "provider-holds-given-resource", "logs", "LoggerProvider::GetResource()");
    judge_seen(seen1, n, &lp->GetResource(), A, schema, "log", how);
    if (two)
      judge_seen(seen2, n, &lp->GetResource(), A, schema, "log", how);
    R.count("provider_logs", seen1.items.size() + seen2.items.size());
  }
  else
  {
    std::unique_ptr<sdkm::MeterProvider> mp;
    if (via_ctx)
      mp.reset(new sdkm::MeterProvider(std::unique_ptr<sdkm::MeterContext>(
          new sdkm::MeterContext(std::unique_ptr<sdkm::ViewRegistry>(new sdkm::ViewRegistry()), *mine))));
    else
      mp.reset(new sdkm::MeterProvider(std::unique_ptr<sdkm::ViewRegistry>(new sdkm::ViewRegistry()), *mine));
    mine.reset();
    std::shared_ptr<sdkm::MetricReader> rd1(new PullReader), rd2(new PullReader);
    mp->AddMetricReader(rd1);
    if (two)
      mp->AddMetricReader(rd2);
    // a collection cycle with nothing to report (no meter / no instrument yet) still hands the reader a batch,
    // and "every ... metric batch references its provider's resource" (seeded change C18-3 was missed without this)
    if (r.coin())
    {
      SeenList empty1;
      bool before_meter = r.coin();
      if (!before_meter)
        (void)mp->GetMeter("c18.meter");
      rd1->Collect([&](sdkm::ResourceMetrics &rm) {
        empty1.add(rm.resource_);
        return true;
      });
      judge_seen(empty1, 1, &mp->GetResource(), A, schema, "metric-batch-empty-cycle", how);
      R.count("provider_metric_batches_empty_cycle", empty1.items.size());
    }
    {
      auto meter = mp->GetMeter("c18.meter");
      auto ctr   = meter->CreateUInt64Counter("c18.counter");
      ctr->Add(3);
      size_t rounds = static_cast<size_t>(r.range(1, 3));
      SeenList seen1, seen2;
      for (size_t i = 0; i < rounds; ++i)
      {
        rd1->Collect([&](sdkm::ResourceMetrics &rm) {
          seen1.add(rm.resource_);
          return true;
        });
        if (two)
          rd2->Collect([&](sdkm::ResourceMetrics &rm) {
            seen2.add(rm.resource_);
            return true;
          });
        ctr->Add(1);
      }
      judge_seen(seen1, rounds, &mp->GetResource(), A, schema, "metric-batch", how);
      if (two)
        judge_seen(seen2, rounds, &mp->GetResource(), A, schema, "metric-batch", how);
      R.count("provider_metric_batches", seen1.items.size() + seen2.items.size());
    }
    check_resource_is(mp->GetResource(), A, schema, "provider-holds-given-resource", "metrics", "MeterProvider::GetResource()");
  }
  (void)D;
  uint64_t h = vf::fnv1a(how + schema + std::to_string(signal));
  for (auto &kv : A)
    h = vf::mix(h, vf::fnv1a(kv.first) ^ vf::fnv1a(show_value(kv.second)));
  R.nontrivial(h);
}

// ------------------------------------------------------------------------------------------
class SilentLog : public sdkc::internal_log::LogHandler
{
public:
  void Handle(sdkc::internal_log::LogLevel, const char *, int, const char *, const sdkc::AttributeMap &) noexcept override
  {
    ++n;
  }
  uint64_t n = 0;
};

int main(int argc, char **argv)
{
  SilentLog *sl = new SilentLog;
  sdkc::internal_log::GlobalLogHandler::SetLogHandler(nostd::shared_ptr<sdkc::internal_log::LogHandler>(sl));
  if (argc >= 5 && strcmp(argv[1], "--c18-create-child") == 0)
  {
    // exec'd by create_case(): the environment is already in place, records go to the inherited pipe
    g_child_fd        = atoi(argv[2]);
    uint64_t seed     = strtoull(argv[3], nullptr, 10);
    bool have_attrs   = argv[4][0] == 'a', have_svc = argv[4][1] == 's';
    const char *a     = getenv("OTEL_RESOURCE_ATTRIBUTES");
    const char *n     = getenv("OTEL_SERVICE_NAME");
    create_child_body(seed, have_attrs, a ? a : "", have_svc, n ? n : "");
    child_emit('D', "", "", "");
    _exit(0);
  }
  auto &R = vf::report();
  R.init("C18", argc, argv);
  unsetenv("OTEL_RESOURCE_ATTRIBUTES");
  unsetenv("OTEL_SERVICE_NAME");
  unsetenv("OTEL_SDK_DISABLED");
#if defined(__SANITIZE_ADDRESS__)
  {
    // load the symbolizer's debug info once in the parent: forked children that die with a
    // sanitizer report inherit it instead of re-reading it (0.2 s per report otherwise)
    // (libasan and libubsan each carry their own symbolizer state)
    char sym[256];
    void *pc = reinterpret_cast<void *>(&call_dur_direct);
    __sanitizer_symbolize_pc(pc, "%f %s:%l", sym, sizeof sym);
    if (void *ub = dlopen("libubsan.so.1", RTLD_NOW | RTLD_NOLOAD))
    {
      typedef void (*sym_fn)(void *, const char *, char *, size_t);
      if (sym_fn f = reinterpret_cast<sym_fn>(dlsym(ub, "__sanitizer_symbolize_pc")))
        f(pc, "%f %s:%l", sym, sizeof sym);
    }
  }
#endif
  std::string eng   = "," + R.opt.sparam("engine", "readers,merge,detect,create,providers") + ",";
  auto on           = [&](const char *e) { return eng.find(std::string(",") + e + ",") != std::string::npos; };
  uint64_t n_read   = static_cast<uint64_t>(R.opt.param("readers_per_case", 8));
  uint64_t n_merge  = static_cast<uint64_t>(R.opt.param("merges_per_case", 2));
  uint64_t n_detect = static_cast<uint64_t>(R.opt.param("detects_per_case", 2));
  uint64_t create_1_in   = static_cast<uint64_t>(R.opt.param("create_one_in", 20));
  uint64_t provider_1_in = static_cast<uint64_t>(R.opt.param("provider_one_in", 4));
  R.run_cases([&](uint64_t i) {
    uint64_t cs = R.case_seed(i);
    uint64_t ev = 0;
    if (on("readers"))
      for (uint64_t j = 0; j < n_read; ++j, ++ev)
        reader_case(vf::mix(cs, 100 + j));
    if (on("merge"))
      for (uint64_t j = 0; j < n_merge; ++j, ++ev)
        merge_case(vf::mix(cs, 200 + j));
    if (on("detect"))
      for (uint64_t j = 0; j < n_detect; ++j, ++ev)
        detect_case(vf::mix(cs, 300 + j));
    if (on("create") && vf::mix(cs, 400) % create_1_in == 0)
    {
      create_case(vf::mix(cs, 401));
      ++ev;
    }
    if (on("providers") && vf::mix(cs, 500) % provider_1_in == 0)
    {
      provider_case(vf::mix(cs, 501));
      ++ev;
    }
    if (ev > 1)
      R.add_evaluations(ev - 1);
  });
  R.count("sdk_log_messages", sl->n);
  return R.finish();
}
