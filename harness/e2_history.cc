// E2 — real-thread history engine for C01 / C02 / C03 (TSan + perturbation shim).
//
// One history = a fresh processor (batch span / batch log / simple span / simple log), provider
// (TracerProvider / LoggerProvider) or periodic metric reader driven by producer, flusher and
// shutdown threads.  Every call and return at the client boundary and every entry/exit of the
// harness exporter is recorded with a logical time stamp; records carry a unique
// (producer, sequence) tag.  After all threads are joined the history checker H decides
// exactly-once, per-producer order, no-loss-with-room (C01), flush completeness and shutdown
// finality (C02), one-export-at-a-time and batch bounds (C03).  --param prop=C0x selects which
// property's assertions are reported (the others are still evaluated and counted).
#include <algorithm>
#include <chrono>
#include <map>
#include <memory>
#include <thread>
#include <unordered_map>
#include <vector>

#include "opentelemetry/logs/provider.h"
#include "opentelemetry/sdk/common/global_log_handler.h"
#include "opentelemetry/sdk/logs/batch_log_record_processor.h"
#include "opentelemetry/sdk/logs/batch_log_record_processor_factory.h"
#include "opentelemetry/sdk/logs/batch_log_record_processor_options.h"
#include "opentelemetry/sdk/logs/batch_log_record_processor_runtime_options.h"
#include "opentelemetry/sdk/logs/exporter.h"
#include "opentelemetry/sdk/logs/logger_context.h"
#include "opentelemetry/sdk/logs/logger_context_factory.h"
#include "opentelemetry/sdk/logs/logger_provider.h"
#include "opentelemetry/sdk/logs/logger_provider_factory.h"
#include "opentelemetry/sdk/logs/recordable.h"
#include "opentelemetry/sdk/logs/simple_log_record_processor.h"
#include "opentelemetry/sdk/metrics/export/periodic_exporting_metric_reader.h"
#include "opentelemetry/sdk/metrics/export/periodic_exporting_metric_reader_factory.h"
#include "opentelemetry/sdk/metrics/export/periodic_exporting_metric_reader_runtime_options.h"
#include "opentelemetry/sdk/metrics/export/periodic_exporting_metric_reader_options.h"
#include "opentelemetry/metrics/async_instruments.h"
#include "opentelemetry/metrics/observer_result.h"
#include "opentelemetry/metrics/sync_instruments.h"
#include "opentelemetry/sdk/metrics/data/metric_data.h"
#include "opentelemetry/sdk/metrics/export/metric_producer.h"
#include "opentelemetry/sdk/metrics/meter_provider.h"
#include "opentelemetry/sdk/metrics/push_metric_exporter.h"
#include "opentelemetry/sdk/resource/resource.h"
#include "opentelemetry/sdk/trace/batch_span_processor.h"
#include "opentelemetry/sdk/trace/batch_span_processor_factory.h"
#include "opentelemetry/sdk/trace/batch_span_processor_options.h"
#include "opentelemetry/sdk/trace/batch_span_processor_runtime_options.h"
#include "opentelemetry/sdk/trace/exporter.h"
#include "opentelemetry/sdk/trace/processor.h"
#include "opentelemetry/sdk/trace/recordable.h"
#include "opentelemetry/sdk/trace/simple_processor.h"
#include "opentelemetry/sdk/trace/tracer_context.h"
#include "opentelemetry/sdk/trace/tracer_context_factory.h"
#include "opentelemetry/sdk/trace/tracer_provider.h"
#include "opentelemetry/sdk/trace/tracer_provider_factory.h"

#include "vf_core.h"
#include "vf_history.h"
#include "vf_runtime.h"

namespace sdktrace   = opentelemetry::sdk::trace;
namespace sdklogs    = opentelemetry::sdk::logs;
namespace sdkmetrics = opentelemetry::sdk::metrics;
namespace sdkcommon  = opentelemetry::sdk::common;
namespace nostd      = opentelemetry::nostd;
namespace otcommon   = opentelemetry::common;
namespace trace_api  = opentelemetry::trace;
using vf::Event;
using vf::EventLog;
using vf::Rng;

// ---------------------------------------------------------------------------------------------
// events
// ---------------------------------------------------------------------------------------------
enum Ev : uint32_t
{
  kProdCall = 1,  // a = producer, b = sequence
  kProdRet,
  kExportEnter,  // a = batch id
  kExportItem,   // a = producer, b = sequence      (same stamp as the enter event)
  kExportExit,   // a = batch id
  kExpFlushEnter,
  kExpFlushExit,
  kExpShutdownEnter,
  kExpShutdownExit,
  kFlushCall,  // a = flush id, b = timeout class
  kFlushRet,   // a = flush id, b = result
  kShutdownCall,  // a = shutdown id, b = kind (0 explicit, 1 destructor, 2 provider)
  kShutdownRet,   // a = shutdown id, b = result
  kOverlap,       // exporter saw in-flight > 1 at Export entry; a = in-flight count
  kCollectCancelled,  // the periodic reader reported that a collection exceeded the export timeout
};

static std::string g_prop = "C01";

// which property a monitor assertion belongs to
static void viol(const char *prop, const std::string &assertion, const std::string &cls, const std::string &detail)
{
  auto &R = vf::report();
  if (g_prop == prop)
    R.violation(assertion, cls, detail);
  else
    R.count(std::string("other_property_alarm_") + prop + "_" + assertion);
}

// ---------------------------------------------------------------------------------------------
// silent log handler: the SDK's diagnostics are counted, not printed
// ---------------------------------------------------------------------------------------------
// set by the controller while it makes calls on a processor whose Shutdown has returned: the SDK's own
// "queue is full - dropping" diagnostic then is an observable effect of a call that must have none
static vf::raw_atomic<int> g_after_shutdown{0};
static vf::raw_atomic<uint64_t> g_late_queue_full_warnings{0};

class CountingLogHandler : public sdkcommon::internal_log::LogHandler
{
public:
  void Handle(sdkcommon::internal_log::LogLevel level, const char *, int, const char *msg,
              const sdkcommon::AttributeMap &) noexcept override
  {
    counts[static_cast<int>(level) & 7].fetch_add(1, std::memory_order_relaxed);
    // the periodic reader's own diagnostic is an observation: this collection cycle was cancelled
    if (level == sdkcommon::internal_log::LogLevel::Error && msg && strstr(msg, "and timed out"))
      EventLog::get().add(kCollectCancelled);
    if (g_after_shutdown.load(std::memory_order_relaxed) && msg && strstr(msg, "queue is full"))
      g_late_queue_full_warnings.fetch_add(1, std::memory_order_relaxed);
  }
  vf::raw_atomic<uint64_t> counts[8] = {};
};

// ---------------------------------------------------------------------------------------------
// exporter fault script shared between the controller and the exporter instance
// ---------------------------------------------------------------------------------------------
struct Script
{
  int latency_mode   = 0;  // 0 none, 1 random <= 300us, 2 fixed slow (slow_us)
  unsigned slow_us   = 0;
  bool export_fail   = false;
  bool flush_false   = false;
  bool shutdown_false = false;
  // gate: the n-th Export call parks until the controller opens the gate
  int gate_at_export = -1;
  vf::raw_atomic<int> parked{0};
  vf::raw_atomic<int> open{0};
  // second gate, armed by the controller: the next Export call parks (used for an Export parked during Shutdown)
  vf::raw_atomic<int> gate_next{0};
  vf::raw_atomic<int> parked2{0};
  vf::raw_atomic<int> open2{0};
  vf::raw_atomic<int> in_flight{0};
  vf::raw_atomic<int> exports{0};
  vf::raw_atomic<uint64_t> batch_ids{0};
  uint64_t seed = 1;
  uint64_t id   = 0;  // 0 = the exporter under observation, >= 1 = decoy exporters of provider subjects
};

static void script_delay(Script &s, uint64_t salt)
{
  if (s.latency_mode == 1)
  {
    uint64_t x = vf::mix(s.seed, salt);
    unsigned us = static_cast<unsigned>(x % 300);
    if (us > 20)
      usleep(us);
  }
  else if (s.latency_mode == 2)
    usleep(s.slow_us);
}

// common body of Export for all exporter kinds
template <class ItemFn>
static sdkcommon::ExportResult do_export(Script &s, size_t n, ItemFn item)
{
  auto &L     = EventLog::get();
  int inflight = s.in_flight.fetch_add(1, std::memory_order_relaxed) + 1;
  uint64_t bid = s.batch_ids.fetch_add(1, std::memory_order_relaxed);
  uint64_t t   = L.add(kExportEnter, bid, n);
  if (inflight > 1)
    L.add(kOverlap, static_cast<uint64_t>(inflight));
  for (size_t i = 0; i < n; ++i)
  {
    uint64_t p, q;
    item(i, p, q);
    L.add_at(t, kExportItem, p, q);
  }
  int k = s.exports.fetch_add(1, std::memory_order_relaxed);
  if (k == s.gate_at_export)
  {
    s.parked.store(1, std::memory_order_relaxed);
    while (!s.open.load(std::memory_order_relaxed))
      usleep(50);
  }
  if (s.gate_next.load(std::memory_order_relaxed) && s.gate_next.exchange(0, std::memory_order_relaxed))
  {
    s.parked2.store(1, std::memory_order_relaxed);
    while (!s.open2.load(std::memory_order_relaxed))
      usleep(50);
  }
  script_delay(s, bid);
  L.add(kExportExit, bid);
  s.in_flight.fetch_sub(1, std::memory_order_relaxed);
  return s.export_fail ? sdkcommon::ExportResult::kFailure : sdkcommon::ExportResult::kSuccess;
}

static bool do_exp_flush(Script &s)
{
  auto &L = EventLog::get();
  L.add(kExpFlushEnter, s.id);
  script_delay(s, 77);
  L.add(kExpFlushExit, s.id);
  return !s.flush_false;
}
static bool do_exp_shutdown(Script &s)
{
  auto &L = EventLog::get();
  L.add(kExpShutdownEnter, s.id);
  script_delay(s, 99);
  L.add(kExpShutdownExit, s.id);
  return !s.shutdown_false;
}

// ---------------------------------------------------------------------------------------------
// tagged recordables + recording exporters
// ---------------------------------------------------------------------------------------------
static bool parse_tag(nostd::string_view name, uint64_t &p, uint64_t &s)
{
  // "<p>.<s>"
  p = s = 0;
  size_t i = 0;
  if (name.empty())
    return false;
  for (; i < name.size() && name[i] != '.'; ++i)
    p = p * 10 + static_cast<uint64_t>(name[i] - '0');
  if (i == name.size())
    return false;
  for (++i; i < name.size(); ++i)
    s = s * 10 + static_cast<uint64_t>(name[i] - '0');
  return true;
}

class TaggedSpan final : public sdktrace::Recordable
{
public:
  uint64_t p = ~0ull, s = ~0ull;
  // what the SDK attached; dereferenced by the exporter at Export time, as a real exporter would: a resource or
  // instrumentation scope that does not outlive the records queued for export is a sanitizer report
  const opentelemetry::sdk::resource::Resource *res                              = nullptr;
  const opentelemetry::sdk::instrumentationscope::InstrumentationScope *scope = nullptr;
  TaggedSpan() = default;
  TaggedSpan(uint64_t pp, uint64_t ss) : p(pp), s(ss) {}
  void SetIdentity(const trace_api::SpanContext &, trace_api::SpanId) noexcept override {}
  void SetAttribute(nostd::string_view, const otcommon::AttributeValue &) noexcept override {}
  void AddEvent(nostd::string_view, otcommon::SystemTimestamp, const otcommon::KeyValueIterable &) noexcept override {}
  void AddLink(const trace_api::SpanContext &, const otcommon::KeyValueIterable &) noexcept override {}
  void SetStatus(trace_api::StatusCode, nostd::string_view) noexcept override {}
  void SetName(nostd::string_view name) noexcept override { parse_tag(name, p, s); }
  void SetSpanKind(trace_api::SpanKind) noexcept override {}
  void SetResource(const opentelemetry::sdk::resource::Resource &r) noexcept override { res = &r; }
  void SetStartTime(otcommon::SystemTimestamp) noexcept override {}
  void SetDuration(std::chrono::nanoseconds) noexcept override {}
  void SetInstrumentationScope(const opentelemetry::sdk::instrumentationscope::InstrumentationScope &sc) noexcept override
  {
    scope = &sc;
  }
};

static vf::raw_atomic<uint64_t> g_touch{0};

class TaggedLog final : public sdklogs::Recordable
{
public:
  uint64_t p = ~0ull, s = ~0ull;
  TaggedLog() = default;
  TaggedLog(uint64_t pp, uint64_t ss) : p(pp), s(ss) {}
  void SetTimestamp(otcommon::SystemTimestamp) noexcept override {}
  void SetObservedTimestamp(otcommon::SystemTimestamp) noexcept override {}
  void SetSeverity(opentelemetry::logs::Severity) noexcept override {}
  void SetBody(const otcommon::AttributeValue &) noexcept override {}
  void SetAttribute(nostd::string_view, const otcommon::AttributeValue &) noexcept override {}
  void SetEventId(int64_t id, nostd::string_view) noexcept override
  {
    p = static_cast<uint64_t>(id) >> 32;
    s = static_cast<uint64_t>(id) & 0xffffffffu;
  }
  void SetTraceId(const trace_api::TraceId &) noexcept override {}
  void SetSpanId(const trace_api::SpanId &) noexcept override {}
  void SetTraceFlags(const trace_api::TraceFlags &) noexcept override {}
  void SetResource(const opentelemetry::sdk::resource::Resource &) noexcept override {}
  void SetInstrumentationScope(const opentelemetry::sdk::instrumentationscope::InstrumentationScope &) noexcept override {}
};

class RecSpanExporter final : public sdktrace::SpanExporter
{
public:
  explicit RecSpanExporter(std::shared_ptr<Script> s) : s_(std::move(s)) {}
  std::unique_ptr<sdktrace::Recordable> MakeRecordable() noexcept override
  {
    return std::unique_ptr<sdktrace::Recordable>(new TaggedSpan());
  }
  sdkcommon::ExportResult Export(const nostd::span<std::unique_ptr<sdktrace::Recordable>> &batch) noexcept override
  {
    return do_export(*s_, batch.size(), [&](size_t i, uint64_t &p, uint64_t &q) {
      auto *t = static_cast<TaggedSpan *>(batch[i].get());
      p       = t ? t->p : ~1ull;
      q       = t ? t->s : ~1ull;
      if (t && t->scope)
        g_touch.fetch_add(t->scope->GetName().size() + t->scope->GetVersion().size(), std::memory_order_relaxed);
      if (t && t->res)
        g_touch.fetch_add(t->res->GetAttributes().size(), std::memory_order_relaxed);
    });
  }
  bool ForceFlush(std::chrono::microseconds) noexcept override { return do_exp_flush(*s_); }
  bool Shutdown(std::chrono::microseconds) noexcept override { return do_exp_shutdown(*s_); }

private:
  std::shared_ptr<Script> s_;
};

class RecLogExporter final : public sdklogs::LogRecordExporter
{
public:
  explicit RecLogExporter(std::shared_ptr<Script> s) : s_(std::move(s)) {}
  std::unique_ptr<sdklogs::Recordable> MakeRecordable() noexcept override
  {
    return std::unique_ptr<sdklogs::Recordable>(new TaggedLog());
  }
  sdkcommon::ExportResult Export(const nostd::span<std::unique_ptr<sdklogs::Recordable>> &batch) noexcept override
  {
    return do_export(*s_, batch.size(), [&](size_t i, uint64_t &p, uint64_t &q) {
      auto *t = static_cast<TaggedLog *>(batch[i].get());
      p       = t ? t->p : ~1ull;
      q       = t ? t->s : ~1ull;
    });
  }
  bool ForceFlush(std::chrono::microseconds) noexcept override { return do_exp_flush(*s_); }
  bool Shutdown(std::chrono::microseconds) noexcept override { return do_exp_shutdown(*s_); }

private:
  std::shared_ptr<Script> s_;
};

// ---------------------------------------------------------------------------------------------
// subjects: a uniform produce / flush / shutdown surface over processors and providers
// ---------------------------------------------------------------------------------------------
struct Subject
{
  virtual ~Subject() {}
  virtual void produce(uint64_t p, uint64_t s)              = 0;
  virtual bool flush(std::chrono::microseconds timeout)     = 0;
  virtual bool shutdown(std::chrono::microseconds timeout)  = 0;
  virtual void destroy()                                    = 0;  // runs the destructor
  virtual const char *name() const                          = 0;
  virtual bool is_batch() const { return true; }
};

// Every way the SDK offers to construct a batch processor (selected by a seed-derived `how`): the options
// constructor, the options + runtime-options constructor, the factory (and, for logs, the legacy
// positional-argument constructor).  All must give the same queue / batch / delay.
static std::unique_ptr<sdktrace::SpanProcessor> make_batch_span(std::unique_ptr<sdktrace::SpanExporter> exp, size_t q, size_t b,
                                                                 std::chrono::milliseconds d, unsigned how)
{
  sdktrace::BatchSpanProcessorOptions o;
  o.max_queue_size        = q;
  o.max_export_batch_size = b;
  o.schedule_delay_millis = d;
  switch (how % 4)
  {
    case 0:
      return std::unique_ptr<sdktrace::SpanProcessor>(new sdktrace::BatchSpanProcessor(std::move(exp), o));
    case 1:
    {
      sdktrace::BatchSpanProcessorRuntimeOptions ro;
      return std::unique_ptr<sdktrace::SpanProcessor>(new sdktrace::BatchSpanProcessor(std::move(exp), o, ro));
    }
    case 2:
      return sdktrace::BatchSpanProcessorFactory::Create(std::move(exp), o);
    default:
    {
      sdktrace::BatchSpanProcessorRuntimeOptions ro;
      return sdktrace::BatchSpanProcessorFactory::Create(std::move(exp), o, ro);
    }
  }
}
static std::unique_ptr<sdklogs::LogRecordProcessor> make_batch_log(std::unique_ptr<sdklogs::LogRecordExporter> exp, size_t q, size_t b,
                                                                    std::chrono::milliseconds d, unsigned how)
{
  sdklogs::BatchLogRecordProcessorOptions o;
  o.max_queue_size        = q;
  o.max_export_batch_size = b;
  o.schedule_delay_millis = d;
  switch (how % 5)
  {
    case 0:
      return std::unique_ptr<sdklogs::LogRecordProcessor>(new sdklogs::BatchLogRecordProcessor(std::move(exp), o));
    case 1:
    {
      sdklogs::BatchLogRecordProcessorRuntimeOptions ro;
      return std::unique_ptr<sdklogs::LogRecordProcessor>(new sdklogs::BatchLogRecordProcessor(std::move(exp), o, ro));
    }
    case 2:
      return sdklogs::BatchLogRecordProcessorFactory::Create(std::move(exp), o);
    case 3:
    {
      sdklogs::BatchLogRecordProcessorRuntimeOptions ro;
      return sdklogs::BatchLogRecordProcessorFactory::Create(std::move(exp), o, ro);
    }
    default:
      return std::unique_ptr<sdklogs::LogRecordProcessor>(new sdklogs::BatchLogRecordProcessor(std::move(exp), q, d, b));
  }
}

// Every way a provider can come to own its processors: the constructors (vector / single processor / ready-made
// context), the factory overloads, and AddProcessor after construction.  Flush, shutdown and fan-out must not
// depend on which one was used.
static std::unique_ptr<sdktrace::TracerProvider> make_tracer_provider(std::vector<std::unique_ptr<sdktrace::SpanProcessor>> procs,
                                                                      unsigned how)
{
  auto &R = vf::report();
  auto res = opentelemetry::sdk::resource::Resource::Create({});
  if (procs.size() == 1 && (how & 1))
  {
    R.count("provider_built_single_processor");
    if (how & 2)
      return sdktrace::TracerProviderFactory::Create(std::move(procs[0]));
    return std::unique_ptr<sdktrace::TracerProvider>(new sdktrace::TracerProvider(std::move(procs[0])));
  }
  switch ((how >> 2) % 6)
  {
    case 0:
      return std::unique_ptr<sdktrace::TracerProvider>(new sdktrace::TracerProvider(std::move(procs)));
    case 1:
      R.count("provider_built_by_factory");
      return sdktrace::TracerProviderFactory::Create(std::move(procs));
    case 2:
      R.count("provider_built_by_factory");
      return sdktrace::TracerProviderFactory::Create(std::move(procs), res);
    case 3:
      R.count("provider_built_from_context");
      return std::unique_ptr<sdktrace::TracerProvider>(
          new sdktrace::TracerProvider(std::unique_ptr<sdktrace::TracerContext>(new sdktrace::TracerContext(std::move(procs)))));
    case 4:
      R.count("provider_built_from_context");
      return sdktrace::TracerProviderFactory::Create(sdktrace::TracerContextFactory::Create(std::move(procs), res));
    default:
    {
      // the first k processors at construction, the others through AddProcessor
      R.count("provider_built_with_AddProcessor");
      size_t k = (how >> 8) % procs.size();
      std::vector<std::unique_ptr<sdktrace::SpanProcessor>> first;
      for (size_t i = 0; i < k; ++i)
        first.push_back(std::move(procs[i]));
      std::unique_ptr<sdktrace::TracerProvider> p(new sdktrace::TracerProvider(std::move(first)));
      for (size_t i = k; i < procs.size(); ++i)
        p->AddProcessor(std::move(procs[i]));
      return p;
    }
  }
}
static std::unique_ptr<sdklogs::LoggerProvider> make_logger_provider(std::vector<std::unique_ptr<sdklogs::LogRecordProcessor>> procs,
                                                                     unsigned how)
{
  auto &R = vf::report();
  auto res = opentelemetry::sdk::resource::Resource::Create({});
  if (procs.size() == 1 && (how & 1))
  {
    R.count("provider_built_single_processor");
    if (how & 2)
      return sdklogs::LoggerProviderFactory::Create(std::move(procs[0]));
    return std::unique_ptr<sdklogs::LoggerProvider>(new sdklogs::LoggerProvider(std::move(procs[0])));
  }
  switch ((how >> 2) % 6)
  {
    case 0:
      return std::unique_ptr<sdklogs::LoggerProvider>(new sdklogs::LoggerProvider(std::move(procs)));
    case 1:
      R.count("provider_built_by_factory");
      return sdklogs::LoggerProviderFactory::Create(std::move(procs));
    case 2:
      R.count("provider_built_by_factory");
      return sdklogs::LoggerProviderFactory::Create(std::move(procs), res);
    case 3:
      R.count("provider_built_from_context");
      return std::unique_ptr<sdklogs::LoggerProvider>(
          new sdklogs::LoggerProvider(std::unique_ptr<sdklogs::LoggerContext>(new sdklogs::LoggerContext(std::move(procs)))));
    case 4:
      R.count("provider_built_from_context");
      return sdklogs::LoggerProviderFactory::Create(sdklogs::LoggerContextFactory::Create(std::move(procs), res));
    default:
    {
      R.count("provider_built_with_AddProcessor");
      size_t k = (how >> 8) % procs.size();
      std::vector<std::unique_ptr<sdklogs::LogRecordProcessor>> first;
      for (size_t i = 0; i < k; ++i)
        first.push_back(std::move(procs[i]));
      std::unique_ptr<sdklogs::LoggerProvider> p(new sdklogs::LoggerProvider(std::move(first)));
      for (size_t i = k; i < procs.size(); ++i)
        p->AddProcessor(std::move(procs[i]));
      return p;
    }
  }
}

struct BatchSpanSubject : Subject
{
  std::unique_ptr<sdktrace::SpanProcessor> proc;
  BatchSpanSubject(std::shared_ptr<Script> sc, size_t q, size_t b, std::chrono::milliseconds d, unsigned how)
  {
    proc = make_batch_span(std::unique_ptr<sdktrace::SpanExporter>(new RecSpanExporter(sc)), q, b, d, how);
  }
  void produce(uint64_t p, uint64_t s) override
  {
    proc->OnEnd(std::unique_ptr<sdktrace::Recordable>(new TaggedSpan(p, s)));
  }
  bool flush(std::chrono::microseconds t) override { return proc->ForceFlush(t); }
  bool shutdown(std::chrono::microseconds t) override { return proc->Shutdown(t); }
  void destroy() override { proc.reset(); }
  const char *name() const override { return "batch-span"; }
};

struct BatchLogSubject : Subject
{
  std::unique_ptr<sdklogs::LogRecordProcessor> proc;
  BatchLogSubject(std::shared_ptr<Script> sc, size_t q, size_t b, std::chrono::milliseconds d, unsigned how)
  {
    proc = make_batch_log(std::unique_ptr<sdklogs::LogRecordExporter>(new RecLogExporter(sc)), q, b, d, how);
  }
  void produce(uint64_t p, uint64_t s) override
  {
    proc->OnEmit(std::unique_ptr<sdklogs::Recordable>(new TaggedLog(p, s)));
  }
  bool flush(std::chrono::microseconds t) override { return proc->ForceFlush(t); }
  bool shutdown(std::chrono::microseconds t) override { return proc->Shutdown(t); }
  void destroy() override { proc.reset(); }
  const char *name() const override { return "batch-log"; }
};

struct SimpleSpanSubject : Subject
{
  std::unique_ptr<sdktrace::SimpleSpanProcessor> proc;
  explicit SimpleSpanSubject(std::shared_ptr<Script> sc)
  {
    proc.reset(new sdktrace::SimpleSpanProcessor(std::unique_ptr<sdktrace::SpanExporter>(new RecSpanExporter(sc))));
  }
  void produce(uint64_t p, uint64_t s) override
  {
    proc->OnEnd(std::unique_ptr<sdktrace::Recordable>(new TaggedSpan(p, s)));
  }
  bool flush(std::chrono::microseconds t) override { return proc->ForceFlush(t); }
  bool shutdown(std::chrono::microseconds t) override { return proc->Shutdown(t); }
  void destroy() override { proc.reset(); }
  const char *name() const override { return "simple-span"; }
  bool is_batch() const override { return false; }
};

struct SimpleLogSubject : Subject
{
  std::unique_ptr<sdklogs::SimpleLogRecordProcessor> proc;
  explicit SimpleLogSubject(std::shared_ptr<Script> sc)
  {
    proc.reset(new sdklogs::SimpleLogRecordProcessor(std::unique_ptr<sdklogs::LogRecordExporter>(new RecLogExporter(sc))));
  }
  void produce(uint64_t p, uint64_t s) override
  {
    proc->OnEmit(std::unique_ptr<sdklogs::Recordable>(new TaggedLog(p, s)));
  }
  bool flush(std::chrono::microseconds t) override { return proc->ForceFlush(t); }
  bool shutdown(std::chrono::microseconds t) override { return proc->Shutdown(t); }
  void destroy() override { proc.reset(); }
  const char *name() const override { return "simple-log"; }
  bool is_batch() const override { return false; }
};

// TracerProvider owning 1..3 processors; the FIRST one is the batch processor under observation
// (its exporter is the recording one), the others are decoys with their own scripts.
struct TracerProviderSubject : Subject
{
  std::unique_ptr<sdktrace::TracerProvider> prov;
  nostd::shared_ptr<trace_api::Tracer> tracer, tracer2;
  std::vector<std::shared_ptr<Script>> decoys;
  TracerProviderSubject(std::shared_ptr<Script> sc, size_t q, size_t b, std::chrono::milliseconds d, int extra,
                        uint64_t seed)
  {
    std::vector<std::unique_ptr<sdktrace::SpanProcessor>> procs;
    sdktrace::BatchSpanProcessorOptions o;
    o.max_queue_size        = q;
    o.max_export_batch_size = b;
    o.schedule_delay_millis = d;
    // the processor under observation sits at a seeded position among the decoys, and decoy exporters fail
    // their Export / ForceFlush / Shutdown at random: a provider must drive every processor regardless
    int pos = static_cast<int>((seed >> 8) % static_cast<uint64_t>(extra + 1));
    for (int i = 0; i <= extra; ++i)
    {
      if (i == pos)
        procs.push_back(make_batch_span(std::unique_ptr<sdktrace::SpanExporter>(new RecSpanExporter(sc)), q, b, d,
                                        static_cast<unsigned>(seed >> 24)));
      if (i == extra)
        break;
      auto ds  = std::make_shared<Script>();
      ds->seed = seed + static_cast<uint64_t>(i);
      ds->id   = static_cast<uint64_t>(i + 1);
      ds->export_fail    = ((seed >> (12 + i)) & 3) == 0;
      ds->flush_false    = ((seed >> (16 + i)) & 3) == 0;
      ds->shutdown_false = ((seed >> (20 + i)) & 1) == 0;
      decoys.push_back(ds);
      // decoy exporters log into the same event log; give their batch ids a disjoint range
      ds->batch_ids.store(1000000ull * static_cast<uint64_t>(i + 1), std::memory_order_relaxed);
      if ((seed >> i) & 1)
        procs.emplace_back(new sdktrace::SimpleSpanProcessor(std::unique_ptr<sdktrace::SpanExporter>(new RecSpanExporter(ds))));
      else
      {
        sdktrace::BatchSpanProcessorOptions o2;
        o2.max_queue_size        = 64;
        o2.max_export_batch_size = 16;
        o2.schedule_delay_millis = std::chrono::milliseconds(3);
        procs.emplace_back(new sdktrace::BatchSpanProcessor(std::unique_ptr<sdktrace::SpanExporter>(new RecSpanExporter(ds)), o2));
      }
    }
    prov = make_tracer_provider(std::move(procs), static_cast<unsigned>(seed >> 30));
    tracer  = prov->GetTracer("e2");
    tracer2 = prov->GetTracer("e2-other", "1.2");
  }
  void produce(uint64_t p, uint64_t s) override
  {
    char nm[48];
    snprintf(nm, sizeof nm, "%llu.%llu", static_cast<unsigned long long>(p), static_cast<unsigned long long>(s));
    auto span = ((p + s) & 1 ? tracer2 : tracer)->StartSpan(nm);
    span->End();
  }
  bool flush(std::chrono::microseconds t) override { return prov->ForceFlush(t); }
  bool shutdown(std::chrono::microseconds t) override { return prov->Shutdown(t); }
  void destroy() override
  {
    tracer  = nostd::shared_ptr<trace_api::Tracer>(nullptr);
    tracer2 = nostd::shared_ptr<trace_api::Tracer>(nullptr);
    prov.reset();
  }
  const char *name() const override { return "tracer-provider"; }
};

struct LoggerProviderSubject : Subject
{
  std::unique_ptr<sdklogs::LoggerProvider> prov;
  nostd::shared_ptr<opentelemetry::logs::Logger> logger;
  std::vector<std::shared_ptr<Script>> decoys;
  LoggerProviderSubject(std::shared_ptr<Script> sc, size_t q, size_t b, std::chrono::milliseconds d, int extra,
                        uint64_t seed)
  {
    std::vector<std::unique_ptr<sdklogs::LogRecordProcessor>> procs;
    sdklogs::BatchLogRecordProcessorOptions o;
    o.max_queue_size        = q;
    o.max_export_batch_size = b;
    o.schedule_delay_millis = d;
    int pos = static_cast<int>((seed >> 8) % static_cast<uint64_t>(extra + 1));
    for (int i = 0; i <= extra; ++i)
    {
      if (i == pos)
        procs.push_back(make_batch_log(std::unique_ptr<sdklogs::LogRecordExporter>(new RecLogExporter(sc)), q, b, d,
                                       static_cast<unsigned>(seed >> 24)));
      if (i == extra)
        break;
      auto ds  = std::make_shared<Script>();
      ds->seed = seed + static_cast<uint64_t>(i);
      ds->id   = static_cast<uint64_t>(i + 1);
      ds->export_fail    = ((seed >> (12 + i)) & 3) == 0;
      ds->flush_false    = ((seed >> (16 + i)) & 3) == 0;
      ds->shutdown_false = ((seed >> (20 + i)) & 1) == 0;
      ds->batch_ids.store(1000000ull * static_cast<uint64_t>(i + 1), std::memory_order_relaxed);
      decoys.push_back(ds);
      if ((seed >> i) & 1)
        procs.emplace_back(new sdklogs::SimpleLogRecordProcessor(std::unique_ptr<sdklogs::LogRecordExporter>(new RecLogExporter(ds))));
      else
      {
        sdklogs::BatchLogRecordProcessorOptions o2;
        o2.max_queue_size        = 64;
        o2.max_export_batch_size = 16;
        o2.schedule_delay_millis = std::chrono::milliseconds(3);
        procs.emplace_back(new sdklogs::BatchLogRecordProcessor(std::unique_ptr<sdklogs::LogRecordExporter>(new RecLogExporter(ds)), o2));
      }
    }
    prov = make_logger_provider(std::move(procs), static_cast<unsigned>(seed >> 30));
    logger = prov->GetLogger("e2", "e2lib");
  }
  void produce(uint64_t p, uint64_t s) override
  {
    auto rec = logger->CreateLogRecord();
    if (!rec)
      return;
    rec->SetEventId(static_cast<int64_t>((p << 32) | s));
    logger->EmitLogRecord(std::move(rec));
  }
  bool flush(std::chrono::microseconds t) override { return prov->ForceFlush(t); }
  bool shutdown(std::chrono::microseconds t) override { return prov->Shutdown(t); }
  void destroy() override
  {
    logger = nostd::shared_ptr<opentelemetry::logs::Logger>(nullptr);
    prov.reset();
  }
  const char *name() const override { return "logger-provider"; }
};

// ---------------------------------------------------------------------------------------------
// history configuration
// ---------------------------------------------------------------------------------------------
static const std::chrono::microseconds kMaxUs = (std::chrono::microseconds::max)();

struct FlushSpec
{
  int timeout_class;  // 0: zero (= indefinite), 1: 1us, 2: 1ms, 3: 50ms, 4: max
  std::chrono::microseconds value() const
  {
    switch (timeout_class)
    {
      case 0:
        return std::chrono::microseconds(0);
      case 1:
        return std::chrono::microseconds(1);
      case 2:
        return std::chrono::microseconds(1000);
      case 3:
        return std::chrono::microseconds(50000);
      default:
        return kMaxUs;
    }
  }
};

struct Phase
{
  int producers          = 1;
  int per_producer       = 50;
  int flushers           = 0;
  int flushes_each       = 1;
  int flush_timeout      = 4;
  bool quiescent_flush   = false;  // a complete ForceFlush(max) by the controller after the phase
  bool bounded_by_queue  = false;  // total produced in this phase <= max_queue (no-loss corollary)
};

struct Config
{
  int subject = 0;  // 0 batch-span 1 batch-log 2 tracer-provider 3 logger-provider 4 simple-span 5 simple-log
  size_t queue = 8, batch = 4;
  int delay_ms = 5;
  std::vector<Phase> phases;
  int shutdown_mode    = 0;  // 0 explicit, 1 destructor only
  int shutdown_threads = 1;
  bool producers_race_shutdown = false;
  bool flush_races_shutdown    = false;
  bool post_shutdown_ops       = true;
  bool gate                    = false;
  bool backlog_flush           = false;  // directed scenario: flushes arrive while a multi-batch backlog is exported
  bool emit_shutdown_in_flush  = false;  // directed scenario: emit + Shutdown while a ForceFlush sits in a slow exporter flush
  bool timedout_flush          = false;  // directed scenario: a ForceFlush times out in a parked Export, then flush + burst
  bool shutdown_gate           = false;  // directed scenario: Export parked while Shutdown is in progress, producers must return
  int extra_processors         = 0;
  unsigned yield_ppm = 0, sleep_ppm = 0, cas_ppm = 0, wake_ppm = 0;
  std::string describe() const
  {
    char b[400];
    snprintf(b, sizeof b,
             "subject=%d queue=%zu batch=%zu delay=%dms phases=%zu shutdown_mode=%d shutdown_threads=%d race_prod=%d "
             "race_flush=%d gate=%d extra=%d shim(y=%u,s=%u,cas=%u,wake=%u)",
             subject, queue, batch, delay_ms, phases.size(), shutdown_mode, shutdown_threads, producers_race_shutdown,
             flush_races_shutdown, gate, extra_processors, yield_ppm, sleep_ppm, cas_ppm, wake_ppm);
    std::string s = b;
    for (auto &p : phases)
    {
      snprintf(b, sizeof b, " [prod=%dx%d flushers=%dx%d/t%d q=%d bounded=%d]", p.producers, p.per_producer, p.flushers,
               p.flushes_each, p.flush_timeout, p.quiescent_flush, p.bounded_by_queue);
      s += b;
    }
    return s;
  }
};

static Config make_config(Rng &r, bool thorough)
{
  Config c;
  static const size_t queues[] = {1, 2, 3, 4, 8, 64, 2048};
  static const int delays[]    = {1, 2, 5, 50, 400};
  // subject mix depends on the property under check
  unsigned sm = static_cast<unsigned>(r.below(100));
  if (g_prop == "C01")
    c.subject = sm < 45 ? 0 : (sm < 90 ? 1 : (sm < 95 ? 2 : 3));
  else if (g_prop == "C02")
    c.subject = sm < 30 ? 0 : (sm < 60 ? 1 : (sm < 80 ? 2 : 3));
  else
    c.subject = sm < 30 ? 0 : (sm < 60 ? 1 : (sm < 70 ? 2 : (sm < 80 ? 3 : (sm < 90 ? 4 : 5))));
  c.queue    = r.chance(1, 4) ? 2048 : r.pick(queues);
  c.batch    = static_cast<size_t>(r.range(1, static_cast<int64_t>(std::min<size_t>(c.queue, 600))));
  if (r.chance(1, 3))
    c.batch = std::min<size_t>(c.queue, static_cast<size_t>(r.range(1, 4)));
  c.delay_ms = r.pick(delays);
  int nph    = static_cast<int>(r.range(1, 3));
  for (int i = 0; i < nph; ++i)
  {
    Phase p;
    p.producers     = static_cast<int>(r.range(1, 8));
    p.per_producer  = static_cast<int>(r.range(20, thorough ? 400 : 200));
    p.flushers      = r.chance(1, 2) ? static_cast<int>(r.range(1, 3)) : 0;
    p.flushes_each  = static_cast<int>(r.range(1, 4));
    p.flush_timeout = static_cast<int>(r.below(5));
    p.quiescent_flush = r.chance(1, 2);
    if (r.chance(1, 4))
    {
      // the corollary: at most max_queue records between two completed flushes are never lost
      p.bounded_by_queue = true;
      p.quiescent_flush  = true;
      p.flushers         = 0;
      p.producers        = static_cast<int>(std::min<int64_t>(p.producers, static_cast<int64_t>(c.queue)));
      p.per_producer     = static_cast<int>(std::max<size_t>(1, c.queue / static_cast<size_t>(p.producers)));
      if (p.per_producer > 300)
        p.per_producer = 300;
    }
    c.phases.push_back(p);
  }
  // with the 400 ms schedule delay (long against a history of a few ms) practically nothing but the half-full
  // and flush wake-ups trigger exports.  No longer delay is used: every internal wait of the processors is
  // timed by schedule_delay and a healthy ForceFlush may legitimately need one full delay (the log processor
  // does not wake its worker for an empty queue), so the watchdog window must dwarf the delay.
  c.shutdown_mode           = r.chance(1, 4) ? 1 : 0;
  c.shutdown_threads        = r.chance(1, 2) ? 1 : static_cast<int>(r.range(2, 4));
  c.producers_race_shutdown = r.chance(1, 4);
  c.flush_races_shutdown    = r.chance(1, g_prop == "C02" ? 3 : 4);
  c.post_shutdown_ops       = r.chance(3, 4);
  c.gate                    = r.chance(1, 8) && c.subject < 2 && c.delay_ms <= 50;
  c.extra_processors        = (c.subject == 2 || c.subject == 3) ? static_cast<int>(r.range(0, 2)) : 0;
  if (r.chance(1, 6) && c.subject < 4)
  {
    // Directed scenario (from seeded change C01-spare): a slow exporter, a small batch size and a burst that
    // fills the queue, so that the worker is in the middle of a multi-batch snapshot while ForceFlush callers
    // arrive and producers keep adding; then exactly max_queue_size records between two completed flushes.
    c.backlog_flush = true;
    static const size_t qs[] = {4, 8, 16};
    c.queue = r.pick(qs);
    c.batch = static_cast<size_t>(r.range(1, 3));
    c.delay_ms = static_cast<int>(r.range(1, 5));
    c.gate  = false;
    c.phases.clear();
    Phase burst;
    burst.producers     = static_cast<int>(r.range(2, 4));
    burst.per_producer  = static_cast<int>(c.queue);
    burst.flushers      = 2;
    burst.flushes_each  = 3;
    burst.flush_timeout = 4;
    burst.quiescent_flush = false;
    c.phases.push_back(burst);
    Phase bounded;
    bounded.bounded_by_queue = true;
    bounded.quiescent_flush  = true;
    bounded.flushers         = 0;
    bounded.producers        = static_cast<int>(std::min<size_t>(static_cast<size_t>(r.range(1, 4)), c.queue));
    bounded.per_producer     = static_cast<int>(c.queue / static_cast<size_t>(bounded.producers));
    c.phases.push_back(bounded);
    if (r.coin())
      c.phases.push_back(bounded);
  }
  if (!c.backlog_flush && c.subject < 4 && r.chance(1, 8))
  {
    // Directed scenario (from seeded change C01-w3-1): a ForceFlush with a finite timeout expires while the Export
    // it caused is parked; more records arrive; the exporter is released; the next ForceFlush(max) must really
    // flush (its ticket must not be confused with the abandoned one), so that a following burst of exactly
    // max_queue_size records fits.
    c.timedout_flush = true;
    static const size_t qs[] = {4, 8, 16};
    c.queue    = r.pick(qs);
    c.batch    = static_cast<size_t>(r.range(1, 2));
    c.delay_ms = static_cast<int>(r.range(1, 5));
    c.gate     = false;
    c.phases.clear();
    Phase bounded;
    bounded.bounded_by_queue = true;
    bounded.quiescent_flush  = true;
    bounded.flushers         = 0;
    bounded.producers        = static_cast<int>(std::min<size_t>(static_cast<size_t>(r.range(1, 4)), c.queue));
    bounded.per_producer     = static_cast<int>(c.queue / static_cast<size_t>(bounded.producers));
    c.phases.push_back(bounded);
    if (r.coin())
      c.phases.push_back(bounded);
  }
  // Directed scenario (from seeded change C01-w2-1): a ForceFlush on an idle processor is inside a slow exporter
  // ForceFlush when one thread emits a few records and then calls Shutdown: they were produced before Shutdown.
  c.emit_shutdown_in_flush = !c.backlog_flush && !c.timedout_flush && c.subject < 4 && r.chance(1, 7);
  if (c.emit_shutdown_in_flush)
    c.shutdown_mode = 0;
  switch (r.below(3))
  {
    case 0:
      break;  // pure stress
    case 1:
      c.yield_ppm = 30000;
      c.sleep_ppm = 3000;
      c.cas_ppm   = 62500;
      c.wake_ppm  = 20000;
      break;
    default:
      c.yield_ppm = 120000;
      c.sleep_ppm = 15000;
      c.cas_ppm   = 250000;
      c.wake_ppm  = 100000;
  }
  return c;
}

// ---------------------------------------------------------------------------------------------
// the history checker H
// ---------------------------------------------------------------------------------------------
struct Rec
{
  uint64_t call = 0, ret = 0;
  int delivered = 0;
  uint64_t batch_enter = 0, batch_exit = 0;
};
struct Batch
{
  uint64_t id, enter, exit = ~0ull;
  std::vector<std::pair<uint64_t, uint64_t>> items;
};
struct Call
{
  uint64_t id, call, ret = ~0ull;
  uint64_t arg = 0, result = 0;
};

struct Stats
{
  uint64_t drops = 0, delivered = 0, true_flush_active = 0, false_flush = 0, overlaps_prod_export = 0, batches = 0;
};

static std::string key_of(uint64_t p, uint64_t s)
{
  return std::to_string(p) + "." + std::to_string(s);
}

static void check_history(const Config &c, const char *subject_name, const std::vector<Event> &ev, bool script_slow,
                          uint64_t &sig_out, Stats &st)
{
  auto &R = vf::report();
  std::map<std::pair<uint64_t, uint64_t>, Rec> recs;
  std::vector<Batch> batches;
  std::unordered_map<uint64_t, size_t> batch_idx;
  std::vector<Call> flushes, shutdowns;
  std::unordered_map<uint64_t, size_t> flush_idx, shut_idx;
  std::vector<std::pair<uint64_t, uint64_t>> exp_flush, exp_shutdown;  // enter, exit
  std::vector<uint64_t> overlap_at;
  std::unordered_map<uint32_t, size_t> open_export_by_tid;
  std::unordered_map<uint32_t, uint64_t> open_flush_by_tid, open_shut_by_tid;
  uint64_t sig = 1469598103934665603ull;
  unsigned prod_since = 0;
  for (auto &e : ev)
  {
    // decoy exporters of provider subjects use batch ids >= 1e6 and are ignored by the record checks
    bool decoy = (e.type == kExportEnter || e.type == kExportExit) && e.a >= 1000000ull;
    switch (e.type)
    {
      case kProdCall:
        recs[{e.a, e.b}].call = e.t;
        break;
      case kProdRet:
        recs[{e.a, e.b}].ret = e.t;
        ++prod_since;
        break;
      case kExportEnter:
        if (!decoy)
        {
          batch_idx[e.a] = batches.size();
          batches.push_back(Batch{e.a, e.t, ~0ull, {}});
          open_export_by_tid[e.tid] = batches.size() - 1;
        }
        else
          open_export_by_tid.erase(e.tid);
        break;
      case kExportItem:
      {
        auto it = open_export_by_tid.find(e.tid);
        if (it != open_export_by_tid.end() && batches[it->second].enter == e.t)
          batches[it->second].items.emplace_back(e.a, e.b);
        break;
      }
      case kExportExit:
        if (!decoy)
        {
          auto it = batch_idx.find(e.a);
          if (it != batch_idx.end())
            batches[it->second].exit = e.t;
        }
        break;
      case kExpFlushEnter:
        if (e.a == 0)
          open_flush_by_tid[e.tid] = e.t;
        break;
      case kExpFlushExit:
        if (e.a == 0)
          exp_flush.emplace_back(open_flush_by_tid[e.tid], e.t);
        break;
      case kExpShutdownEnter:
        if (e.a == 0)
          open_shut_by_tid[e.tid] = e.t;
        break;
      case kExpShutdownExit:
        if (e.a == 0)
          exp_shutdown.emplace_back(open_shut_by_tid[e.tid], e.t);
        break;
      case kFlushCall:
        flush_idx[e.a] = flushes.size();
        flushes.push_back(Call{e.a, e.t, ~0ull, e.b, 0});
        break;
      case kFlushRet:
        flushes[flush_idx[e.a]].ret    = e.t;
        flushes[flush_idx[e.a]].result = e.b;
        break;
      case kShutdownCall:
        shut_idx[e.a] = shutdowns.size();
        shutdowns.push_back(Call{e.a, e.t, ~0ull, e.b, 0});
        break;
      case kShutdownRet:
        shutdowns[shut_idx[e.a]].ret    = e.t;
        shutdowns[shut_idx[e.a]].result = e.b;
        break;
      case kOverlap:
        overlap_at.push_back(e.t);
        break;
    }
    if (e.type != kProdCall && e.type != kProdRet && e.type != kExportItem)
    {
      unsigned bucket = prod_since == 0 ? 0 : (prod_since < 4 ? 1 : 2);
      sig             = vf::mix(sig, (static_cast<uint64_t>(e.type) << 8) | bucket);
      prod_since      = 0;
    }
  }
  sig_out = sig;
  if (c.subject >= 4)
  {
    // simple processors: how many OnEnd/OnEmit calls started while another caller was inside the processor
    uint64_t open = 0, contended = 0;
    for (auto &e : ev)
    {
      if (e.type == kProdCall)
      {
        if (open > 0)
          ++contended;
        ++open;
      }
      else if (e.type == kProdRet && open > 0)
        --open;
    }
    R.count("simple_calls_while_another_caller_inside", contended);
  }
  // decoy exporters of provider subjects stamp their own id into their events and are ignored above, so the
  // exporter flush/shutdown clauses are judged for every subject
  bool decoys = false;

  uint64_t first_shutdown_call = ~0ull, first_shutdown_ret = ~0ull;
  for (auto &s : shutdowns)
  {
    first_shutdown_call = std::min(first_shutdown_call, s.call);
    first_shutdown_ret  = std::min(first_shutdown_ret, s.ret);
  }
  bool batchy = c.subject < 4;
  std::string subj = subject_name;

  // ---- C03: one Export at a time, batch bounds ------------------------------------------------
  if (!overlap_at.empty())
    viol("C03", "one-export-at-a-time", subj,
         std::to_string(overlap_at.size()) + " Export entries while another Export was running; first at t=" +
             std::to_string(overlap_at[0]) + "; " + c.describe());
  st.batches += batches.size();
  for (auto &b : batches)
  {
    std::string phase;
    bool flush_before = false, flush_open = false;
    for (auto &f : flushes)
    {
      if (f.call < b.enter && b.enter < f.ret)
        flush_open = true;
      if (f.call < b.enter)
        flush_before = true;
    }
    if (b.enter > first_shutdown_call)
      phase = flush_before ? "drain-after-flush" : "drain-no-flush";
    else if (flush_open)
      phase = "during-flush";
    else if (flush_before)
      phase = "after-flush";
    else
      phase = "before-first-flush";
    R.count("batches_" + phase);
    if (batchy)
    {
      if (b.items.empty())
        viol("C03", "batch-non-empty", subj + ":" + phase, "empty batch delivered; " + c.describe());
      if (b.items.size() > c.batch)
        viol("C03", "batch-le-max", subj + ":" + phase,
             "batch of " + std::to_string(b.items.size()) + " > max_export_batch_size " + std::to_string(c.batch) + "; " +
                 c.describe());
      R.maxi("max_batch_over_limit_pct", b.items.size() * 100 / c.batch);
    }
  }

  // ---- C01: exactly once, order, no loss with room --------------------------------------------
  std::vector<uint64_t> lost_with_room;   // return stamps of records that were lost although the queue had room
  std::map<uint64_t, uint64_t> last_seq;  // producer -> last delivered sequence + 1
  for (auto &b : batches)
  {
    for (auto &it : b.items)
    {
      auto rit = recs.find(it);
      if (rit == recs.end() || rit->second.call == 0 || rit->second.call > b.enter)
      {
        viol("C01", "exactly-once", subj + ":phantom",
             "record " + key_of(it.first, it.second) + " delivered but never produced (or before its call); " + c.describe());
        continue;
      }
      Rec &rc = rit->second;
      if (++rc.delivered == 2)
        viol("C01", "exactly-once", subj + ":duplicate",
             "record " + key_of(it.first, it.second) + " delivered twice; " + c.describe());
      if (rc.delivered == 1)
      {
        rc.batch_enter = b.enter;
        rc.batch_exit  = b.exit;
      }
      auto &ls = last_seq[it.first];
      if (it.second + 1 <= ls)
        viol("C01", "producer-order", subj,
             "producer " + std::to_string(it.first) + ": sequence " + std::to_string(it.second) + " delivered after " +
                 std::to_string(ls - 1) + "; " + c.describe());
      else
        ls = it.second + 1;
    }
  }
  if (batchy)
  {
    // sorted stamp lists for the occupancy bound A - C
    std::vector<uint64_t> accepted_calls, consumed_enters;
    for (auto &kv : recs)
      if (kv.second.delivered)
      {
        accepted_calls.push_back(kv.second.call);
        consumed_enters.push_back(kv.second.batch_enter);
      }
    std::sort(accepted_calls.begin(), accepted_calls.end());
    std::sort(consumed_enters.begin(), consumed_enters.end());
    // for the corollary "never lost when at most max_queue_size records are produced between two completed
    // flushes": all call stamps, all return stamps, and the true flushes in order of their return
    std::vector<uint64_t> all_calls, all_rets;
    for (auto &kv : recs)
    {
      all_calls.push_back(kv.second.call);
      if (kv.second.ret)
        all_rets.push_back(kv.second.ret);
    }
    std::sort(all_calls.begin(), all_calls.end());
    std::sort(all_rets.begin(), all_rets.end());
    std::vector<std::pair<uint64_t, uint64_t>> true_flushes;  // (ret, call)
    for (auto &f : flushes)
      if (f.ret != ~0ull && f.result && f.ret < first_shutdown_call)
        true_flushes.emplace_back(f.ret, f.call);
    std::sort(true_flushes.begin(), true_flushes.end());
    for (auto &kv : recs)
    {
      const Rec &rc = kv.second;
      if (rc.delivered)
      {
        ++st.delivered;
        continue;
      }
      if (rc.ret == 0)
        continue;  // never returned: judged by the watchdog
      if (rc.ret > first_shutdown_call)
      {
        R.count("undelivered_concurrent_with_or_after_shutdown");
        continue;  // concurrent with / after shutdown: free
      }
      // a drop.  Legitimate only if the queue could have been full: A - C >= max_queue_size
      uint64_t A = static_cast<uint64_t>(std::lower_bound(accepted_calls.begin(), accepted_calls.end(), rc.ret) -
                                         accepted_calls.begin());
      uint64_t C = static_cast<uint64_t>(std::lower_bound(consumed_enters.begin(), consumed_enters.end(), rc.call) -
                                         consumed_enters.begin());
      ++st.drops;
      // Corollary: take the latest ForceFlush that returned true before this record was produced.  Everything
      // that had returned before that flush BEGAN is exported (flush completeness), so at most the records that
      // had not, and that started before this one finished, can share the queue with it.  If those are at most
      // max_queue_size (this record included) the queue cannot have been full.
      {
        auto it = std::lower_bound(true_flushes.begin(), true_flushes.end(), std::make_pair(rc.call, uint64_t(0)));
        if (it != true_flushes.begin())
        {
          uint64_t fcall = 0;
          for (auto jt = true_flushes.begin(); jt != it; ++jt)
            fcall = std::max(fcall, jt->second);  // the flush that began last among those completed before rc.call
          uint64_t started = static_cast<uint64_t>(std::lower_bound(all_calls.begin(), all_calls.end(), rc.ret) -
                                                   all_calls.begin());
          uint64_t done_before_flush = static_cast<uint64_t>(std::upper_bound(all_rets.begin(), all_rets.end(), fcall) -
                                                             all_rets.begin());
          uint64_t N = started - done_before_flush;
          R.count("drops_judged_by_completed_flush_corollary");
          if (N <= c.queue && !(A - C < c.queue))
          {
            lost_with_room.push_back(rc.ret);
            viol("C01", "lost-with-room", subj + ":after-completed-flush",
                 "record " + key_of(kv.first.first, kv.first.second) + " never exported although only " +
                     std::to_string(N) + " <= max_queue_size " + std::to_string(c.queue) +
                     " records were produced since a ForceFlush that returned true began (t=" + std::to_string(fcall) +
                     "); " + c.describe());
          }
        }
      }
      if (A - C < c.queue)
        lost_with_room.push_back(rc.ret);
      if (A - C < c.queue)
        viol("C01", "lost-with-room", subj,
             "record " + key_of(kv.first.first, kv.first.second) + " never exported although at most " +
                 std::to_string(A - C) + " < max_queue_size " + std::to_string(c.queue) +
                 " records could have been queued (A=" + std::to_string(A) + ", C=" + std::to_string(C) + "); " +
                 c.describe());
    }
  }
  else
  {
    // simple processors: every record whose call returned before shutdown must have been exported
    for (auto &kv : recs)
      if (kv.second.delivered)
        ++st.delivered;
  }
  // OnEnd intervals overlapping an Export
  {
    size_t bi = 0;
    std::vector<std::pair<uint64_t, uint64_t>> bx;
    for (auto &b : batches)
      bx.emplace_back(b.enter, b.exit);
    for (auto &kv : recs)
    {
      for (bi = 0; bi < bx.size(); ++bi)
        if (kv.second.call < bx[bi].second && bx[bi].first < kv.second.ret)
        {
          ++st.overlaps_prod_export;
          break;
        }
      if (st.overlaps_prod_export > 50)
        break;
    }
  }

  // ---- C02: flush completeness ----------------------------------------------------------------
  // (the statement's flush/shutdown clauses are about batch processors and providers owning them)
  if (!batchy)
    return;
  for (auto &f : flushes)
  {
    if (f.ret == ~0ull)
      continue;
    bool after_shutdown = f.call > first_shutdown_ret;
    if (!f.result)
    {
      ++st.false_flush;
      R.count(script_slow ? "false_flush_slow_exporter" : "false_flush_other");
      continue;
    }
    if (after_shutdown)
    {
      R.count("flush_true_after_shutdown_returned");
      continue;  // the statement only demands "without effect"; the return value is not judged
    }
    bool concurrent_shutdown = f.ret > first_shutdown_call;
    // were producers active during the flush?
    bool active = false;
    std::string missing;
    uint64_t nmissing = 0;
    for (auto &kv : recs)
    {
      const Rec &rc = kv.second;
      if (rc.call < f.ret && rc.ret > f.call)
        active = true;
      if (rc.ret == 0 || rc.ret >= f.call)
        continue;
      if (!rc.delivered)
        continue;  // a drop: judged by C01
      if (rc.batch_exit == ~0ull || rc.batch_exit > f.ret)
      {
        if (nmissing++ == 0)
          missing = key_of(kv.first.first, kv.first.second);
      }
    }
    if (active)
      ++st.true_flush_active;
    R.count(active ? "true_flush_producers_active" : "true_flush_quiescent");
    if (concurrent_shutdown)
      R.count("flush_overlapping_shutdown");
    std::string cls = subj + ":" + (concurrent_shutdown ? "racing-shutdown" : (active ? "producers-active" : "quiescent"));
    // a record produced before the flush that was never exported at all although the queue had room
    uint64_t never = 0;
    for (uint64_t t : lost_with_room)
      if (t < f.call)
        ++never;
    if (never)
      viol("C02", "flush-complete", cls + ":never-exported",
           "ForceFlush returned true at t=" + std::to_string(f.ret) + " but " + std::to_string(never) +
               " record(s) produced before it began were never exported although the queue had room; " + c.describe());
    if (nmissing)
      viol("C02", "flush-complete", cls,
           "ForceFlush(timeout class " + std::to_string(f.arg) + ") returned true at t=" + std::to_string(f.ret) +
               " but " + std::to_string(nmissing) + " record(s) produced before it began (t=" + std::to_string(f.call) +
               ") had not been through a finished Export, e.g. " + missing + "; " + c.describe());
    if (!decoys)
    {
      bool ok = false;
      for (auto &x : exp_flush)
        if (x.first > f.call && x.second < f.ret)
          ok = true;
      // No exemption for a flush that overlaps a Shutdown: whoever completes its ticket (the worker's cycle or the
      // shutdown drain) goes through NotifyCompletion, which flushes the exporter first.  (An exemption existed
      // here until the seeded change C02-w4-1; it had never been needed on the unchanged tree.)
      if (concurrent_shutdown)
        R.count("true_flush_overlapping_shutdown_judged_for_exporter_flush");
      if (!ok)
        viol("C02", "flush-calls-exporter-flush", cls,
             "ForceFlush returned true over (" + std::to_string(f.call) + "," + std::to_string(f.ret) +
                 ") without an exporter ForceFlush inside that interval; " + c.describe());
    }
  }

  // ---- C02: shutdown finality -----------------------------------------------------------------
  if (!shutdowns.empty())
  {
    if (!decoys)
    {
      if (exp_shutdown.size() != 1)
        viol("C02", "exporter-shutdown-once", subj + (exp_shutdown.empty() ? ":never" : ":repeated"),
             "exporter Shutdown invoked " + std::to_string(exp_shutdown.size()) + " times over " +
                 std::to_string(shutdowns.size()) + " Shutdown request(s); " + c.describe());
    }
    // no exporter call entered after a Shutdown returned
    uint64_t late = 0;
    std::string what;
    for (auto &b : batches)
      if (b.enter > first_shutdown_ret)
      {
        ++late;
        what = "Export";
      }
    if (!decoys)
    {
      for (auto &x : exp_flush)
        if (x.first > first_shutdown_ret)
        {
          ++late;
          what = "ForceFlush";
        }
      for (auto &x : exp_shutdown)
        if (x.first > first_shutdown_ret)
        {
          ++late;
          what = "Shutdown";
        }
    }
    if (late)
      viol("C02", "no-exporter-call-after-shutdown", subj + ":" + what,
           std::to_string(late) + " exporter call(s) entered after Shutdown had returned at t=" +
               std::to_string(first_shutdown_ret) + "; " + c.describe());
    // everything produced before the first Shutdown call is exported (or was a drop)
    uint64_t nmiss = 0;
    std::string ex;
    for (auto &kv : recs)
    {
      const Rec &rc = kv.second;
      if (rc.ret == 0 || rc.ret >= first_shutdown_call || !rc.delivered)
        continue;
      if (rc.batch_exit == ~0ull || rc.batch_exit > first_shutdown_ret)
        if (nmiss++ == 0)
          ex = key_of(kv.first.first, kv.first.second);
    }
    if (!lost_with_room.empty())
      viol("C02", "shutdown-exports-all", subj + ":never-exported",
           std::to_string(lost_with_room.size()) +
               " record(s) produced before Shutdown were never exported although the queue had room; " + c.describe());
    if (nmiss)
      viol("C02", "shutdown-exports-all", subj,
           std::to_string(nmiss) + " record(s) produced before Shutdown were exported only after it returned, e.g. " + ex +
               "; " + c.describe());
  }
  // records never delivered although produced before shutdown are judged by C01's lost-with-room
}

// ---------------------------------------------------------------------------------------------
// witness dump: the recorded history of a violating case, re-checkable by monitors/history.py
// ---------------------------------------------------------------------------------------------
static const char *ev_name(uint32_t t)
{
  switch (t)
  {
    case kProdCall:
      return "prod_call";
    case kProdRet:
      return "prod_ret";
    case kExportEnter:
      return "export_enter";
    case kExportItem:
      return "export_item";
    case kExportExit:
      return "export_exit";
    case kExpFlushEnter:
      return "exp_flush_enter";
    case kExpFlushExit:
      return "exp_flush_exit";
    case kExpShutdownEnter:
      return "exp_shutdown_enter";
    case kExpShutdownExit:
      return "exp_shutdown_exit";
    case kFlushCall:
      return "flush_call";
    case kFlushRet:
      return "flush_ret";
    case kShutdownCall:
      return "shutdown_call";
    case kShutdownRet:
      return "shutdown_ret";
    case kOverlap:
      return "overlap";
  }
  return "?";
}

static void dump_history(const Config &c, const std::string &subject_name, const std::vector<Event> &ev,
                         const char *prefix = "history")
{
  auto &R          = vf::report();
  std::string path = R.opt.out + "/" + prefix + "-" + std::to_string(R.current_case()) + ".jsonl";
  FILE *f          = fopen(path.c_str(), "w");
  if (!f)
    return;
  fprintf(f,
          "{\"config\":{\"subject\":%d,\"subject_name\":%s,\"queue\":%zu,\"batch\":%zu,\"delay_ms\":%d,"
          "\"extra_processors\":%d,\"describe\":%s}}\n",
          c.subject, vf::jstr(subject_name).c_str(), c.queue, c.batch, c.delay_ms, c.extra_processors,
          vf::jstr(c.describe()).c_str());
  for (auto &e : ev)
    fprintf(f, "{\"t\":%llu,\"type\":\"%s\",\"tid\":%u,\"a\":%llu,\"b\":%llu}\n", static_cast<unsigned long long>(e.t),
            ev_name(e.type), e.tid, static_cast<unsigned long long>(e.a), static_cast<unsigned long long>(e.b));
  fclose(f);
}

// ---------------------------------------------------------------------------------------------
// running one history
// ---------------------------------------------------------------------------------------------
static vf::raw_atomic<uint64_t> g_flush_ids{0}, g_shutdown_ids{0};

static bool logged_flush(Subject &s, FlushSpec f)
{
  auto &L     = EventLog::get();
  uint64_t id = g_flush_ids.fetch_add(1, std::memory_order_relaxed);
  L.add(kFlushCall, id, static_cast<uint64_t>(f.timeout_class));
  bool r = s.flush(f.value());
  L.add(kFlushRet, id, r ? 1 : 0);
  return r;
}
// Shutdown is called with every timeout class too (zero, 1 us, 1 ms, 50 ms, max): whatever the value, it must
// export everything produced before it (from seeded change C02-w6-2); one class per history, chosen from the seed
static vf::raw_atomic<int> g_shutdown_timeout_class{4};
static bool logged_shutdown(Subject &s, int kind)
{
  auto &L     = EventLog::get();
  uint64_t id = g_shutdown_ids.fetch_add(1, std::memory_order_relaxed);
  L.add(kShutdownCall, id, static_cast<uint64_t>(kind));
  bool r = true;
  if (kind == 1)
    s.destroy();
  else
    r = s.shutdown(FlushSpec{g_shutdown_timeout_class.load(std::memory_order_relaxed)}.value());
  L.add(kShutdownRet, id, r ? 1 : 0);
  return r;
}
static void logged_produce(Subject &s, uint64_t p, uint64_t q)
{
  auto &L = EventLog::get();
  L.add(kProdCall, p, q);
  s.produce(p, q);
  L.add(kProdRet, p, q);
}

static void run_history(uint64_t seed, bool thorough)
{
  auto &R = vf::report();
  Rng r(seed);
  Config c = make_config(r, thorough);
  // Directed scenario (from seeded change C01-w5-2): the exporter is parked inside an Export while a Shutdown is in
  // progress (final drain, or the cycle Shutdown waits for); producers calling OnEnd/OnEmit meanwhile must return
  // although the exporter - and therefore Shutdown - does not.  Decided from the seed, not from the generator
  // stream, so that the other choices of a case stay what they were.
  c.shutdown_gate = !c.emit_shutdown_in_flush && !c.backlog_flush && !c.timedout_flush && c.subject < 4 &&
                    c.delay_ms <= 50 && vf::mix(seed, 0x5d6a7eULL) % 6 == 0;
  if (c.shutdown_gate)
    c.shutdown_mode = 0;
  {
    uint64_t m = vf::mix(seed, 0x5bd1e995ULL);
    int cls    = (m % 3 == 0) ? static_cast<int>((m >> 8) % 4) : 4;  // one history in three: a finite or zero timeout
    g_shutdown_timeout_class.store(cls, std::memory_order_relaxed);
    if (cls != 4)
      R.count("histories_shutdown_finite_or_zero_timeout");
  }
  auto script  = std::make_shared<Script>();
  script->seed = seed;
  unsigned em  = static_cast<unsigned>(r.below(10));
  bool slow    = false;
  if (em < 4)
    script->latency_mode = 0;
  else if (em < 8)
    script->latency_mode = 1;
  else
  {
    script->latency_mode = 2;
    script->slow_us      = static_cast<unsigned>(r.range(1500, 4000));
    slow                 = true;
    // keep slow histories short
    for (auto &p : c.phases)
      p.per_producer = std::min(p.per_producer, 40);
  }
  if (c.emit_shutdown_in_flush)
  {
    script->latency_mode = 2;
    script->slow_us      = static_cast<unsigned>(r.range(1000, 5000));
    slow                 = true;
    for (auto &p : c.phases)
      p.per_producer = std::min(p.per_producer, 30);
    R.count("histories_emit_shutdown_in_flush");
  }
  if (c.backlog_flush)
  {
    script->latency_mode = 2;
    script->slow_us      = static_cast<unsigned>(r.range(300, 1500));
    slow                 = true;
    R.count("histories_backlog_flush");
  }
  if (c.timedout_flush)
  {
    script->latency_mode = 2;
    script->slow_us      = static_cast<unsigned>(r.range(1000, 3000));
    slow                 = true;
    R.count("histories_timedout_flush");
  }
  script->export_fail    = r.chance(1, 6);
  script->flush_false    = r.chance(1, 6);
  script->shutdown_false = r.chance(1, 6);
  if (c.gate || c.timedout_flush)
    script->gate_at_export = 0;

  EventLog::get().reset();
  vf_configure(seed, c.yield_ppm, c.sleep_ppm, c.cas_ppm, c.wake_ppm, 200);

  std::unique_ptr<Subject> subj;
  std::chrono::milliseconds d(c.delay_ms);
  switch (c.subject)
  {
    case 0:
      subj.reset(new BatchSpanSubject(script, c.queue, c.batch, d, static_cast<unsigned>(seed >> 24)));
      break;
    case 1:
      subj.reset(new BatchLogSubject(script, c.queue, c.batch, d, static_cast<unsigned>(seed >> 24)));
      break;
    case 2:
      subj.reset(new TracerProviderSubject(script, c.queue, c.batch, d, c.extra_processors, seed));
      break;
    case 3:
      subj.reset(new LoggerProviderSubject(script, c.queue, c.batch, d, c.extra_processors, seed));
      break;
    case 4:
      subj.reset(new SimpleSpanSubject(script));
      break;
    default:
      subj.reset(new SimpleLogSubject(script));
  }
  Subject &S = *subj;
  std::map<uint64_t, uint64_t> next_seq;
  bool gate_reached = false;

  // ---- gate scenario: producers must not wait for a parked exporter -------------------------
  if (c.gate)
  {
    vf::WatchdogScope wd(std::string("OnEnd-while-export-blocked:") + S.name(), 60);
    // enough records to trigger one export
    size_t first = std::max<size_t>(1, std::min<size_t>(c.queue, c.batch));
    for (size_t i = 0; i < first; ++i)
      logged_produce(S, 0, next_seq[0]++);
    // wait (bounded, by polling) for the exporter to park
    for (int i = 0; i < 40000 && !script->parked.load(std::memory_order_relaxed); ++i)
      usleep(50);
    if (script->parked.load(std::memory_order_relaxed))
    {
      gate_reached = true;
      int np       = static_cast<int>(r.range(1, 4));
      int each     = static_cast<int>(r.range(1, static_cast<int64_t>(std::min<size_t>(c.queue * 2 + 2, 100))));
      std::vector<std::thread> th;
      std::vector<uint64_t> base(static_cast<size_t>(np) + 1);
      for (int p = 1; p <= np; ++p)
        base[static_cast<size_t>(p)] = next_seq[static_cast<uint64_t>(p)];
      for (int p = 1; p <= np; ++p)
        th.emplace_back([&S, p, each, &base] {
          for (int k = 0; k < each; ++k)
            logged_produce(S, static_cast<uint64_t>(p), base[static_cast<size_t>(p)] + static_cast<uint64_t>(k));
        });
      for (auto &t : th)
        t.join();  // must complete while Export is still parked
      for (int p = 1; p <= np; ++p)
        next_seq[static_cast<uint64_t>(p)] += static_cast<uint64_t>(each);
      R.count("gate_scenarios");
    }
    else
      R.count("gate_not_reached");
    script->open.store(1, std::memory_order_relaxed);
  }

  // ---- a ForceFlush that times out inside a parked Export, then a real one ------------------------
  if (c.timedout_flush)
  {
    vf::WatchdogScope wd(std::string("flush-after-timed-out-flush:") + S.name(), 90);
    size_t first = std::max<size_t>(1, std::min<size_t>(c.queue, c.batch));
    for (size_t i = 0; i < first; ++i)
      logged_produce(S, 0, next_seq[0]++);
    logged_flush(S, FlushSpec{3});  // 50 ms: expires while the first Export is parked at the gate
    if (script->parked.load(std::memory_order_relaxed))
      R.count("timedout_flush_exporter_parked");
    // these wait in the queue behind the parked Export (never more than the queue holds)
    for (size_t i = 0; i + 1 < c.queue; ++i)
      logged_produce(S, 0, next_seq[0]++);
    script->open.store(1, std::memory_order_relaxed);
    logged_flush(S, FlushSpec{4});  // must not return true before everything above went through Export
  }

  // ---- phases --------------------------------------------------------------------------------
  for (size_t pi = 0; pi < c.phases.size(); ++pi)
  {
    const Phase &ph = c.phases[pi];
    vf::WatchdogScope wd(std::string("phase-join:") + S.name(), 90);
    std::vector<std::thread> th;
    std::vector<uint64_t> base(static_cast<size_t>(ph.producers));
    for (int p = 0; p < ph.producers; ++p)
      base[static_cast<size_t>(p)] = next_seq[static_cast<uint64_t>(p)];
    for (int p = 0; p < ph.producers; ++p)
      th.emplace_back([&S, p, &ph, &base] {
        for (int k = 0; k < ph.per_producer; ++k)
          logged_produce(S, static_cast<uint64_t>(p), base[static_cast<size_t>(p)] + static_cast<uint64_t>(k));
      });
    for (int f = 0; f < ph.flushers; ++f)
      th.emplace_back([&S, &ph, &c, f] {
        for (int k = 0; k < ph.flushes_each; ++k)
        {
          logged_flush(S, FlushSpec{c.backlog_flush ? 4 : (ph.flush_timeout + f + k) % 5});
          if (k + 1 < ph.flushes_each)
            usleep(200);
        }
      });
    for (auto &t : th)
      t.join();
    for (int p = 0; p < ph.producers; ++p)
      next_seq[static_cast<uint64_t>(p)] += static_cast<uint64_t>(ph.per_producer);
    if (ph.quiescent_flush || c.delay_ms >= 400)
    {
      vf::WatchdogScope wd2(std::string("ForceFlush-quiescent:") + S.name(), 90);
      logged_flush(S, FlushSpec{r.coin() ? 4 : 0});
    }
    if (ph.bounded_by_queue)
      R.count("phases_bounded_by_queue");
  }

  // ---- shutdown --------------------------------------------------------------------------------
  {
    vf::WatchdogScope wd(std::string("Shutdown:") + S.name(), 90);
    if (c.shutdown_mode == 1)
    {
      logged_shutdown(S, 1);
      R.count("shutdown_by_destructor");
    }
    else
    {
      if (c.emit_shutdown_in_flush)
      {
        logged_flush(S, FlushSpec{4});  // drain: the processor is idle now
        std::thread F([&S] { logged_flush(S, FlushSpec{4}); });
        usleep(static_cast<unsigned>(r.range(50, 1500)));
        int k = static_cast<int>(r.range(1, static_cast<int64_t>(std::min<size_t>(3, c.queue))));
        for (int i = 0; i < k; ++i)
          logged_produce(S, 0, next_seq[0]++);
        logged_shutdown(S, 0);  // same thread: those records were produced before Shutdown was called
        F.join();
      }
      if (c.shutdown_gate)
      {
        vf::WatchdogScope wd3(std::string("OnEnd-while-shutdown-export-blocked:") + S.name(), 60);
        logged_flush(S, FlushSpec{4});  // idle now
        script->gate_next.store(1, std::memory_order_relaxed);
        uint64_t mx = vf::mix(seed, 0x77aa);
        int k       = 1 + static_cast<int>(mx % std::min<size_t>(3, c.queue));
        for (int i = 0; i < k; ++i)
          logged_produce(S, 0, next_seq[0]++);
        std::thread T([&S] { logged_shutdown(S, 0); });
        for (int i = 0; i < 40000 && !script->parked2.load(std::memory_order_relaxed); ++i)
          usleep(50);
        if (script->parked2.load(std::memory_order_relaxed))
        {
          int np2  = 1 + static_cast<int>((mx >> 8) % 3);
          int each = 1 + static_cast<int>((mx >> 16) % std::min<size_t>(c.queue * 2 + 2, 40));
          std::vector<std::thread> pt;
          std::vector<uint64_t> b2(static_cast<size_t>(np2) + 1);
          for (int p = 1; p <= np2; ++p)
            b2[static_cast<size_t>(p)] = next_seq[static_cast<uint64_t>(p)];
          for (int p = 1; p <= np2; ++p)
            pt.emplace_back([&S, p, each, &b2] {
              for (int q = 0; q < each; ++q)
                logged_produce(S, static_cast<uint64_t>(p), b2[static_cast<size_t>(p)] + static_cast<uint64_t>(q));
            });
          for (auto &t : pt)
            t.join();  // must complete while the Export - and with it the Shutdown - is still parked
          for (int p = 1; p <= np2; ++p)
            next_seq[static_cast<uint64_t>(p)] += static_cast<uint64_t>(each);
          R.count("shutdown_gate_scenarios");
        }
        else
          R.count("shutdown_gate_not_reached");
        script->gate_next.store(0, std::memory_order_relaxed);
        script->open2.store(1, std::memory_order_relaxed);
        T.join();
      }
      std::vector<std::thread> th;
      int np = c.producers_race_shutdown ? static_cast<int>(r.range(1, 3)) : 0;
      std::vector<uint64_t> base(static_cast<size_t>(np));
      for (int p = 0; p < np; ++p)
        base[static_cast<size_t>(p)] = next_seq[static_cast<uint64_t>(p)];
      for (int p = 0; p < np; ++p)
        th.emplace_back([&S, p, &base] {
          for (int k = 0; k < 30; ++k)
            logged_produce(S, static_cast<uint64_t>(p), base[static_cast<size_t>(p)] + static_cast<uint64_t>(k));
        });
      if (c.flush_races_shutdown)
      {
        // 1..4 ForceFlush callers (indefinite timeouts) queueing up while Shutdown arrives: each must return.
        // Long injected sleeps at the atomic operations open the window between a caller's shutdown check and
        // its ticket increment wide enough for a whole Shutdown to pass through (seeded change C02-w2-2).
        if (g_prop == "C02" ? ((seed >> 31) & 3) != 0 : ((seed >> 31) & 1) != 0)
          vf_configure(seed, c.yield_ppm, std::max(c.sleep_ppm, 80000u), c.cas_ppm, c.wake_ppm, 4000);
        int nf = 1 + static_cast<int>((seed >> 28) & 3);
        for (int f = 0; f < nf; ++f)
          th.emplace_back([&S, f] {
            logged_flush(S, FlushSpec{(f & 1) ? 0 : 4});
            if (f & 2)
              logged_flush(S, FlushSpec{4});
          });
      }
      for (int k = 0; k < c.shutdown_threads; ++k)
        th.emplace_back([&S] { logged_shutdown(S, 0); });
      for (auto &t : th)
        t.join();
      for (int p = 0; p < np; ++p)
        next_seq[static_cast<uint64_t>(p)] += 30;
      if (c.shutdown_threads > 1)
        R.count("multi_thread_shutdowns");
      if (c.post_shutdown_ops)
      {
        vf::WatchdogScope wd2(std::string("post-shutdown-ops:") + S.name(), 60);
        g_late_queue_full_warnings.store(0, std::memory_order_relaxed);
        g_after_shutdown.store(1, std::memory_order_relaxed);
        logged_produce(S, 0, next_seq[0]++);
        logged_flush(S, FlushSpec{static_cast<int>(r.below(5))});
        logged_shutdown(S, 0);
        logged_produce(S, 0, next_seq[0]++);
        // more late calls than the queue could hold: "later OnEnd/OnEmit calls return promptly without effect"
        if (c.queue <= 64 && S.is_batch())
        {
          for (size_t i = 0; i < c.queue + 3; ++i)
            logged_produce(S, 0, next_seq[0]++);
          R.count("post_shutdown_bursts");
        }
        g_after_shutdown.store(0, std::memory_order_relaxed);
        if (uint64_t w = g_late_queue_full_warnings.load(std::memory_order_relaxed))
          viol("C02", "post-shutdown-call-without-effect", std::string(S.name()) + ":queue-full-warning",
               std::to_string(w) + " 'queue is full' diagnostics were caused by OnEnd/OnEmit calls made after Shutdown had "
               "returned: the calls still enqueue; " + c.describe());
        R.count("post_shutdown_op_sets");
      }
      // destruction after explicit shutdown must not touch the exporter again
      uint64_t before = EventLog::now();
      S.destroy();
      (void)before;
    }
  }
  vf_configure(0, 0, 0, 0, 0, 0);
  const std::string sname = S.name();
  subj.reset();

  // ---- check -----------------------------------------------------------------------------------
  auto ev = EventLog::get().merged();
  uint64_t sig = 0;
  Stats st;
  uint64_t viol_before = R.violations_total();
  check_history(c, sname.c_str(), ev, slow, sig, st);
  // cross-validation of the two checkers: every xcheck-th history on which this checker found nothing is dumped
  // too and re-checked by the independent implementation in monitors/history.py (the driver compares the verdicts)
  static const uint64_t xcheck = static_cast<uint64_t>(R.opt.param("xcheck", 0));
  if (R.violations_total() != viol_before)
    dump_history(c, sname, ev);
  else if (xcheck && R.current_case() % xcheck == 0)
  {
    dump_history(c, sname, ev, "xcheck");
    R.count("histories_dumped_for_cross_check");
  }
  R.signature(sig);
  R.count("histories_" + sname);
  R.count("events", ev.size());
  R.count("records_delivered", st.delivered);
  R.count("legitimate_drops", st.drops);
  R.count("batches", st.batches);
  if (st.drops == 0 && c.phases[0].producers >= 2)
    R.count("histories_zero_drops_multi_producer");
  if (st.overlaps_prod_export)
    R.count("histories_onend_overlapped_export");
  R.count("true_flushes_producers_active", st.true_flush_active);
  if (gate_reached)
    R.count("gate_histories");
  if (st.batches > 0 && EventLog::get().threads() >= 2)
    R.nontrivial(vf::mix(seed, sig));
  if (R.want_sample(5))
    R.sample("history: " + c.describe() + " -> events=" + std::to_string(ev.size()) + " batches=" +
             std::to_string(st.batches) + " delivered=" + std::to_string(st.delivered) + " drops=" +
             std::to_string(st.drops));
}


// ---------------------------------------------------------------------------------------------
// periodic metric reader histories (C02 flush completeness / no Export after Shutdown; C03)
// ---------------------------------------------------------------------------------------------
class RecMetricExporter final : public sdkmetrics::PushMetricExporter
{
public:
  explicit RecMetricExporter(std::shared_ptr<Script> s) : s_(std::move(s)) {}
  sdkcommon::ExportResult Export(const sdkmetrics::ResourceMetrics &data) noexcept override
  {
    // flatten: (thread attribute t, cumulative value) of the counter "c"
    std::vector<std::pair<uint64_t, uint64_t>> items;
    for (auto &sm : data.scope_metric_data_)
      for (auto &md : sm.metric_data_)
      {
        if (md.instrument_descriptor.name_ != "c")
          continue;
        for (auto &pa : md.point_data_attr_)
        {
          uint64_t t = ~0ull, v = 0;
          auto it = pa.attributes.find("t");
          if (it != pa.attributes.end() && nostd::holds_alternative<int64_t>(it->second))
            t = static_cast<uint64_t>(nostd::get<int64_t>(it->second));
          if (nostd::holds_alternative<sdkmetrics::SumPointData>(pa.point_data))
          {
            auto &sp = nostd::get<sdkmetrics::SumPointData>(pa.point_data);
            if (nostd::holds_alternative<int64_t>(sp.value_))
              v = static_cast<uint64_t>(nostd::get<int64_t>(sp.value_));
          }
          items.emplace_back(t, v);
        }
      }
    return do_export(*s_, items.size(), [&](size_t i, uint64_t &p, uint64_t &q) {
      p = items[i].first;
      q = items[i].second;
    });
  }
  sdkmetrics::AggregationTemporality GetAggregationTemporality(sdkmetrics::InstrumentType) const noexcept override
  {
    return sdkmetrics::AggregationTemporality::kCumulative;
  }
  bool ForceFlush(std::chrono::microseconds) noexcept override { return do_exp_flush(*s_); }
  bool Shutdown(std::chrono::microseconds) noexcept override { return do_exp_shutdown(*s_); }

private:
  std::shared_ptr<Script> s_;
};

struct PeriodicCfg
{
  int interval_ms = 20, timeout_ms = 10;
  int adders = 2, adds_each = 50;
  int flushers = 1, flushes_each = 2, flush_timeout = 4;
  int cb_sleep_ms = 0;  // latency of an observable callback; > timeout_ms => collection exceeds the export timeout
  bool via_provider = true;
  int shutdown_threads = 1;
  bool adds_race_shutdown = false;
  unsigned yield_ppm = 0, sleep_ppm = 0, cas_ppm = 0, wake_ppm = 0;
  std::string describe() const
  {
    char b[300];
    snprintf(b, sizeof b,
             "periodic interval=%dms timeout=%dms adders=%dx%d flushers=%dx%d/t%d cb_sleep=%dms via_provider=%d "
             "shutdown_threads=%d race=%d shim(y=%u,s=%u)",
             interval_ms, timeout_ms, adders, adds_each, flushers, flushes_each, flush_timeout, cb_sleep_ms, via_provider,
             shutdown_threads, adds_race_shutdown, yield_ppm, sleep_ppm);
    return b;
  }
};

static void slow_callback(opentelemetry::metrics::ObserverResult result, void *state)
{
  int ms = *static_cast<int *>(state);
  if (ms > 0)
    usleep(static_cast<unsigned>(ms) * 1000);
  if (nostd::holds_alternative<nostd::shared_ptr<opentelemetry::metrics::ObserverResultT<int64_t>>>(result))
    nostd::get<nostd::shared_ptr<opentelemetry::metrics::ObserverResultT<int64_t>>>(result)->Observe(1);
}

static void run_periodic_history(uint64_t seed, bool thorough)
{
  auto &R = vf::report();
  Rng r(seed ^ 0x5eed);
  PeriodicCfg c;
  static const int intervals[] = {20, 40, 80};
  c.interval_ms  = r.pick(intervals);
  c.timeout_ms   = std::max(2, c.interval_ms / 2);
  c.adders       = static_cast<int>(r.range(1, 4));
  c.adds_each    = static_cast<int>(r.range(10, thorough ? 200 : 80));
  c.flushers     = static_cast<int>(r.range(1, 3));
  c.flushes_each = static_cast<int>(r.range(1, 3));
  c.flush_timeout = static_cast<int>(r.below(5));
  c.cb_sleep_ms  = r.chance(1, 4) ? c.timeout_ms + static_cast<int>(r.range(2, 8)) : 0;
  c.via_provider = r.coin();
  c.shutdown_threads   = (c.via_provider && r.chance(1, 3)) ? static_cast<int>(r.range(2, 3)) : 1;
  c.adds_race_shutdown = r.chance(1, 3);
  if (r.coin())
  {
    c.yield_ppm = 30000;
    c.sleep_ppm = 3000;
    c.cas_ppm   = 62500;
    c.wake_ppm  = 20000;
  }
  auto script  = std::make_shared<Script>();
  script->seed = seed;
  script->latency_mode = static_cast<int>(r.below(3));
  if (script->latency_mode == 2)
  {
    // a slow exporter: ForceFlush calls with a finite timeout then expire while a cycle is inside Export
    script->slow_us = static_cast<unsigned>(r.range(800, 4000));
    R.count("histories_periodic_slow_exporter");
  }
  script->flush_false  = r.chance(1, 8);
  script->export_fail  = r.chance(1, 8);
  if (r.chance(1, 6))
  {
    // an Export that outlives export_timeout: the cycle gives up waiting, but the next cycle (periodic or
    // flush-triggered) must still not enter Export before this one has returned
    script->latency_mode = 2;
    script->slow_us      = static_cast<unsigned>(c.timeout_ms + static_cast<int>(r.range(3, 12))) * 1000u;
    R.count("histories_periodic_export_outlives_timeout");
  }

  EventLog::get().reset();
  vf_configure(seed, c.yield_ppm, c.sleep_ppm, c.cas_ppm, c.wake_ppm, 200);
  auto &L = EventLog::get();
  {
    std::unique_ptr<sdkmetrics::MeterProvider> provider(new sdkmetrics::MeterProvider());
    sdkmetrics::PeriodicExportingMetricReaderOptions opt;
    opt.export_interval_millis = std::chrono::milliseconds(c.interval_ms);
    opt.export_timeout_millis  = std::chrono::milliseconds(c.timeout_ms);
    auto make_reader = [&opt](std::shared_ptr<Script> sc, unsigned how) -> std::shared_ptr<sdkmetrics::MetricReader> {
      std::unique_ptr<sdkmetrics::PushMetricExporter> ex(new RecMetricExporter(std::move(sc)));
      sdkmetrics::PeriodicExportingMetricReaderRuntimeOptions ro;
      switch (how % 4)
      {
        case 0:
          return std::shared_ptr<sdkmetrics::MetricReader>(new sdkmetrics::PeriodicExportingMetricReader(std::move(ex), opt));
        case 1:
          return std::shared_ptr<sdkmetrics::MetricReader>(new sdkmetrics::PeriodicExportingMetricReader(std::move(ex), opt, ro));
        case 2:
          return std::shared_ptr<sdkmetrics::MetricReader>(sdkmetrics::PeriodicExportingMetricReaderFactory::Create(std::move(ex), opt));
        default:
          return std::shared_ptr<sdkmetrics::MetricReader>(
              sdkmetrics::PeriodicExportingMetricReaderFactory::Create(std::move(ex), opt, ro));
      }
    };
    unsigned reader_how = static_cast<unsigned>(seed >> 36);
    if (reader_how % 4)
      R.count("periodic_reader_built_other_than_2arg_ctor");
    std::shared_ptr<sdkmetrics::MetricReader> reader = make_reader(script, reader_how);
    // 0..2 decoy readers with their own exporters around the reader under observation (seeded position): a
    // provider-level ForceFlush / Shutdown must reach every reader, whatever the others do with the time budget
    std::vector<std::shared_ptr<Script>> decoy_scripts;
    std::vector<std::shared_ptr<sdkmetrics::MetricReader>> decoy_readers;
    int ndecoys = c.via_provider ? static_cast<int>((seed >> 40) % 3) : 0;
    int mypos   = ndecoys ? static_cast<int>((seed >> 44) % static_cast<uint64_t>(ndecoys + 1)) : 0;
    for (int i = 0; i <= ndecoys; ++i)
    {
      if (i == mypos)
        provider->AddMetricReader(reader);
      if (i == ndecoys)
        break;
      auto ds  = std::make_shared<Script>();
      ds->seed = seed + 17 * static_cast<uint64_t>(i + 1);
      ds->id   = static_cast<uint64_t>(i + 1);
      ds->batch_ids.store(1000000ull * static_cast<uint64_t>(i + 1), std::memory_order_relaxed);
      ds->latency_mode = static_cast<int>((seed >> (48 + 2 * i)) & 3) == 3 ? 2 : static_cast<int>((seed >> (48 + 2 * i)) & 1);
      ds->slow_us      = 1500;
      ds->flush_false  = ((seed >> (52 + i)) & 3) == 0;
      decoy_scripts.push_back(ds);
      std::shared_ptr<sdkmetrics::MetricReader> dr = make_reader(ds, static_cast<unsigned>(seed >> (38 + i)));
      decoy_readers.push_back(dr);
      provider->AddMetricReader(dr);
    }
    if (ndecoys)
      R.count("histories_periodic_multi_reader");
    auto meter   = provider->GetMeter("e2");
    auto counter = meter->CreateUInt64Counter("c");
    nostd::shared_ptr<opentelemetry::metrics::ObservableInstrument> gauge;
    int cb_state = c.cb_sleep_ms;
    if (c.cb_sleep_ms > 0 || r.coin())
    {
      gauge = meter->CreateInt64ObservableGauge("g");
      gauge->AddCallback(slow_callback, &cb_state);
    }
    auto do_flush = [&](int tc) {
      uint64_t id = g_flush_ids.fetch_add(1, std::memory_order_relaxed);
      L.add(kFlushCall, id, static_cast<uint64_t>(tc));
      bool ok = c.via_provider ? provider->ForceFlush(FlushSpec{tc}.value()) : reader->ForceFlush(FlushSpec{tc}.value());
      L.add(kFlushRet, id, ok ? 1 : 0);
    };
    auto do_shutdown = [&] {
      uint64_t id = g_shutdown_ids.fetch_add(1, std::memory_order_relaxed);
      L.add(kShutdownCall, id, 0);
      bool ok = c.via_provider ? provider->Shutdown() : reader->Shutdown();
      L.add(kShutdownRet, id, ok ? 1 : 0);
    };
    auto adder = [&](int t, int first, int n, unsigned pace_us = 0) {
      for (int k = 0; k < n; ++k)
      {
        L.add(kProdCall, static_cast<uint64_t>(t), static_cast<uint64_t>(first + k));
        counter->Add(1, {{"t", static_cast<int64_t>(t)}});
        L.add(kProdRet, static_cast<uint64_t>(t), static_cast<uint64_t>(first + k));
        if (pace_us)
          usleep(pace_us);
      }
    };
    // Paced adders keep recording while the flushers work, and the flushers start their calls at seeded offsets, so
    // that a ForceFlush regularly begins while the cycle serving another caller is already past its collection
    // (seeded change C02-w4-2: such a caller was handed the outstanding ticket and released by that cycle).
    static const unsigned paces[] = {0, 0, 60, 250, 1000};
    unsigned pace                 = paces[(seed >> 20) % 5];
    if (pace)
      R.count("histories_periodic_paced_adders");
    {
      vf::WatchdogScope wd("periodic-phase-join", 120);
      std::vector<std::thread> th;
      for (int t = 0; t < c.adders; ++t)
        th.emplace_back(adder, t, 1, c.adds_each, pace);
      for (int f = 0; f < c.flushers; ++f)
        th.emplace_back([&, f] {
          for (int k = 0; k < c.flushes_each; ++k)
          {
            if (pace)
              usleep(static_cast<unsigned>(vf::mix(seed, static_cast<uint64_t>(f * 16 + k)) %
                                           (static_cast<uint64_t>(c.interval_ms) * 700 + 1)));
            do_flush((c.flush_timeout + f + k) % 5);
            usleep(300);
          }
        });
      for (auto &t : th)
        t.join();
    }
    {
      // a quiescent flush: every Add made so far must be visible in a finished Export
      vf::WatchdogScope wd("periodic-ForceFlush-quiescent", 120);
      do_flush(r.coin() ? 4 : 0);
    }
    {
      vf::WatchdogScope wd("periodic-Shutdown", 120);
      std::vector<std::thread> th;
      if (c.adds_race_shutdown)
        th.emplace_back(adder, 0, c.adds_each + 1, 20);
      for (int k = 0; k < c.shutdown_threads; ++k)
        th.emplace_back(do_shutdown);
      for (auto &t : th)
        t.join();
      // operations after Shutdown has returned: more measurements and ForceFlush calls (finite timeouts) through
      // the reader and the provider must not make the reader export again
      if ((seed >> 33) & 1)
      {
        adder(0, c.adds_each + 100, 5);
        for (int k = 0; k < 2; ++k)
        {
          uint64_t id = g_flush_ids.fetch_add(1, std::memory_order_relaxed);
          L.add(kFlushCall, id, 1);
          bool ok = (k == 0 || !c.via_provider) ? reader->ForceFlush(std::chrono::milliseconds(30))
                                                : provider->ForceFlush(std::chrono::milliseconds(30));
          L.add(kFlushRet, id, ok ? 1 : 0);
        }
        R.count("periodic_post_shutdown_op_sets");
      }
      // linger a little: a stray cycle after Shutdown would show up as a late Export
      usleep(static_cast<unsigned>(c.interval_ms) * 1500);
    }
    vf::WatchdogScope wd("periodic-destroy", 120);
    gauge   = nostd::shared_ptr<opentelemetry::metrics::ObservableInstrument>(nullptr);
    counter = nostd::unique_ptr<opentelemetry::metrics::Counter<uint64_t>>(nullptr);
    meter   = nostd::shared_ptr<opentelemetry::metrics::Meter>(nullptr);
    reader.reset();
    decoy_readers.clear();
    provider.reset();
  }
  vf_configure(0, 0, 0, 0, 0, 0);

  // ---- check ------------------------------------------------------------------------------------
  auto ev = L.merged();
  struct PB
  {
    uint64_t enter, exit = ~0ull;
    std::map<uint64_t, uint64_t> val;
  };
  std::vector<PB> exports;
  std::unordered_map<uint32_t, size_t> open_by_tid;
  std::unordered_map<uint64_t, size_t> by_id;
  std::map<uint64_t, std::vector<uint64_t>> add_rets;  // t -> ret stamps
  std::vector<Call> flushes, shutdowns;
  std::unordered_map<uint64_t, size_t> fidx, sidx;
  std::vector<std::pair<uint64_t, uint64_t>> exp_flush;
  std::unordered_map<uint32_t, uint64_t> open_flush;
  uint64_t overlaps = 0, sig = 1469598103934665603ull;
  std::vector<uint64_t> cancelled_at;
  for (auto &e : ev)
  {
    switch (e.type)
    {
      case kCollectCancelled:
        cancelled_at.push_back(e.t);
        break;
      case kProdRet:
        add_rets[e.a].push_back(e.t);
        break;
      case kExportEnter:
        if (e.a >= 1000000ull)
        {
          open_by_tid.erase(e.tid);  // a decoy reader's exporter
          break;
        }
        by_id[e.a]         = exports.size();
        open_by_tid[e.tid] = exports.size();
        exports.push_back(PB{e.t, ~0ull, {}});
        break;
      case kExportItem:
      {
        auto it = open_by_tid.find(e.tid);
        if (it != open_by_tid.end() && exports[it->second].enter == e.t)
          exports[it->second].val[e.a] = e.b;
        break;
      }
      case kExportExit:
        if (e.a < 1000000ull)
          exports[by_id[e.a]].exit = e.t;
        break;
      case kExpFlushEnter:
        if (e.a == 0)
          open_flush[e.tid] = e.t;
        break;
      case kExpFlushExit:
        if (e.a == 0)
          exp_flush.emplace_back(open_flush[e.tid], e.t);
        break;
      case kFlushCall:
        fidx[e.a] = flushes.size();
        flushes.push_back(Call{e.a, e.t, ~0ull, e.b, 0});
        break;
      case kFlushRet:
        flushes[fidx[e.a]].ret    = e.t;
        flushes[fidx[e.a]].result = e.b;
        break;
      case kShutdownCall:
        sidx[e.a] = shutdowns.size();
        shutdowns.push_back(Call{e.a, e.t, ~0ull, 0, 0});
        break;
      case kShutdownRet:
        shutdowns[sidx[e.a]].ret = e.t;
        break;
      case kOverlap:
        ++overlaps;
        break;
    }
    if (e.type != kProdCall && e.type != kProdRet && e.type != kExportItem)
      sig = vf::mix(sig, e.type);
  }
  if (overlaps)
    viol("C03", "one-export-at-a-time", "periodic",
         std::to_string(overlaps) + " Export entries while another Export was running; " + c.describe());
  uint64_t first_shutdown_call = ~0ull, shutdown_ref = 0, min_ret = ~0ull;
  for (auto &sd : shutdowns)
  {
    first_shutdown_call = std::min(first_shutdown_call, sd.call);
    shutdown_ref        = std::max(shutdown_ref, sd.ret);
    min_ret             = std::min(min_ret, sd.ret);
  }
  // with several concurrent provider-level Shutdown callers only the effective one waits for the reader;
  // the reference is the return of the last of them (sound under every reading of the statement)
  if (shutdowns.size() == 1)
    shutdown_ref = min_ret;
  for (auto &f : flushes)
  {
    if (f.ret == ~0ull)
      continue;
    if (!f.result)
    {
      R.count("periodic_false_flushes");
      continue;
    }
    if (f.call > min_ret)
      continue;  // after shutdown: not judged
    bool racing = f.ret > first_shutdown_call;
    // Input class of the flush: did the SDK itself report that a collection cycle running during this flush
    // exceeded export_timeout and was cancelled?  (Taken from the reader's own diagnostic, not from the
    // configured callback latency alone: on a loaded machine any collection may exceed a few milliseconds.)
    bool cancelled_during = false;
    for (uint64_t t : cancelled_at)
      if (t > f.call && t < f.ret)
        cancelled_during = true;
    std::string fcls = cancelled_during ? "collect-exceeds-export-timeout" : "collect-in-time";
    if (cancelled_during && c.cb_sleep_ms <= c.timeout_ms)
      R.count("periodic_cycles_cancelled_without_scripted_latency");
    std::string cls = "periodic:" + (racing ? std::string("racing-shutdown") : fcls);
    R.count("periodic_true_flushes_" + fcls);
    uint64_t missing = 0;
    std::string ex;
    for (auto &kv : add_rets)
    {
      uint64_t k = static_cast<uint64_t>(std::lower_bound(kv.second.begin(), kv.second.end(), f.call) - kv.second.begin());
      if (k == 0)
        continue;
      bool ok = false;
      for (auto &x : exports)
        if (x.exit < f.ret)
        {
          auto it = x.val.find(kv.first);
          if (it != x.val.end() && it->second >= k)
            ok = true;
        }
      if (!ok && missing++ == 0)
        ex = "thread " + std::to_string(kv.first) + " had completed " + std::to_string(k) + " Add(1) calls";
    }
    if (missing)
      viol("C02", "flush-complete", cls,
           "ForceFlush returned true over (" + std::to_string(f.call) + "," + std::to_string(f.ret) +
               ") but no Export finished inside it carried the measurements recorded before it began: " + ex + "; " +
               c.describe());
    bool okf = false;
    for (auto &x : exp_flush)
      if (x.first > f.call && x.second < f.ret)
        okf = true;
    if (!okf && !racing)
      viol("C02", "flush-calls-exporter-flush", cls,
           "ForceFlush returned true without an exporter ForceFlush inside its interval; " + c.describe());
  }
  uint64_t late = 0;
  for (auto &x : exports)
    if (!shutdowns.empty() && x.enter > shutdown_ref)
      ++late;
  if (late)
    viol("C02", "no-exporter-call-after-shutdown", "periodic:Export",
         std::to_string(late) + " Export call(s) entered after Shutdown had returned; " + c.describe());
  R.count("histories_periodic");
  R.count("periodic_exports", exports.size());
  R.count("events", ev.size());
  R.signature(sig);
  if (!exports.empty())
    R.nontrivial(vf::mix(seed, sig));
  if (R.want_sample(6) && r.chance(1, 3))
    R.sample("history: " + c.describe() + " -> exports=" + std::to_string(exports.size()) + " flushes=" +
             std::to_string(flushes.size()));
}

int main(int argc, char **argv)
{
  auto &R = vf::report();
  // the property is a parameter: the same engine serves C01, C02 and C03
  for (int i = 1; i + 1 < argc; ++i)
    if (std::string(argv[i]) == "--param" && std::string(argv[i + 1]).rfind("prop=", 0) == 0)
      g_prop = std::string(argv[i + 1]).substr(5);
  R.init(g_prop, argc, argv);
  auto handler = nostd::shared_ptr<sdkcommon::internal_log::LogHandler>(new CountingLogHandler());
  sdkcommon::internal_log::GlobalLogHandler::SetLogHandler(handler);
  vf::Watchdog::get().start();
  // every periodic_every-th case is a periodic-reader history (C02 and C03 only; C01 is about batch processors)
  uint64_t periodic_every = static_cast<uint64_t>(R.opt.param("periodic_every", g_prop == "C01" ? 0 : 5));
  R.run_cases([&](uint64_t i) {
    if (periodic_every && i % periodic_every == periodic_every - 1)
      run_periodic_history(R.case_seed(i), R.opt.thorough);
    else
      run_history(R.case_seed(i), R.opt.thorough);
  });
  vf_shim_counters sc;
  vf_counters(&sc);
  R.count("shim_points", sc.points);
  R.count("shim_yields", sc.yields);
  R.count("shim_sleeps", sc.sleeps);
  R.count("shim_spurious_cas", sc.spur_cas);
  R.count("shim_spurious_wakeups", sc.spur_wake);
  R.count("shim_genuine_cas_failures", sc.cas_failed);
  auto *h = static_cast<CountingLogHandler *>(handler.get());
  R.count("sdk_log_warnings", h->counts[static_cast<int>(sdkcommon::internal_log::LogLevel::Warning)].load());
  R.count("sdk_log_errors", h->counts[static_cast<int>(sdkcommon::internal_log::LogLevel::Error)].load());
  return R.finish();
}
