// C13 — an exported log record carries what was emitted, correlated with the active span.
//
// Engine E1 (asan, --param mode=seq): seeded programs of scope push/pop, CreateLogRecord,
// EmitLogRecord(args...) [fixed list of compile-time instantiations], setters in random order +
// EmitLogRecord(record), EmitLogRecord(record, args...) against a real LoggerProvider with
// simple / batch / multiple processors whose exporters hand out ReadWriteLogRecord and deep-copy
// every getter at Export time.  A reference model built left-to-right from the argument list
// predicts the record.  Ownership is judged BY VALUE: after the emitting call returns every
// caller buffer is scribbled (each byte / element changed), batch exporters are held on a gate
// until that happened, then ForceFlush, then compare.  --param kill=free runs every emit twice
// from the same sub-seed: first scribbled; only if that pass found nothing the same arguments
// are emitted again and the buffers are FREED (ASan), so a value-level ownership finding can
// never turn into a crash that masks something else.
// Attribute arguments include owning containers handed over DIRECTLY (std::map / unordered_map /
// vector<pair> with std::string keys and std::string or arithmetic mapped values, KDirBase): the
// API walks the caller's container itself; a simple processor's exporter must see exactly what it
// held, classes <processor>:container-direct:<container type>.
// Processors are also handed to the provider in the middle of a case, while a record made by
// CreateLogRecord() is waiting to be emitted (LoggerProvider::AddProcessor; a provider with one
// processor grows to two, a provider built without processors gets its first ones).  Every
// exporter that was configured when the record was CREATED must see it exactly once and intact;
// whether an exporter added between creation and emit sees it is not judged (counted); it must
// see every record created after it was added.  (Seeded change C13-w4-2.)
// Engine E2 (tsan + shim, --param mode=mt): 1..4 threads with their own scope stacks emit into
// shared processors; records are matched by an id attribute; correlation must be with the
// emitting thread's active span at record creation.
#include <chrono>
#include <condition_variable>
#include <functional>
#include <limits>
#include <map>
#include <memory>
#include <mutex>
#include <thread>
#include <tuple>
#include <unordered_map>
#include <utility>

#include <sys/wait.h>

#include "opentelemetry/common/attribute_value.h"
#include "opentelemetry/common/key_value_iterable_view.h"
#include "opentelemetry/common/timestamp.h"
#include "opentelemetry/context/context.h"
#include "opentelemetry/context/runtime_context.h"
#include "opentelemetry/logs/event_id.h"
#include "opentelemetry/logs/log_record.h"
#include "opentelemetry/logs/logger.h"
#include "opentelemetry/logs/severity.h"
#include "opentelemetry/sdk/common/global_log_handler.h"
#include "opentelemetry/sdk/instrumentationscope/instrumentation_scope.h"
#include "opentelemetry/sdk/instrumentationscope/scope_configurator.h"
#include "opentelemetry/sdk/logs/batch_log_record_processor.h"
#include "opentelemetry/sdk/logs/batch_log_record_processor_options.h"
#include "opentelemetry/sdk/logs/exporter.h"
#include "opentelemetry/sdk/logs/logger.h"
#include "opentelemetry/sdk/logs/logger_config.h"
#include "opentelemetry/sdk/logs/logger_provider.h"
#include "opentelemetry/sdk/logs/multi_log_record_processor.h"
#include "opentelemetry/sdk/logs/read_write_log_record.h"
#include "opentelemetry/sdk/logs/simple_log_record_processor.h"
#include "opentelemetry/sdk/resource/resource.h"
#include "opentelemetry/trace/default_span.h"
#include "opentelemetry/trace/scope.h"
#include "opentelemetry/trace/span_context.h"
#include "opentelemetry/trace/span_id.h"
#include "opentelemetry/trace/trace_flags.h"
#include "opentelemetry/trace/trace_id.h"

#include "vf_core.h"
#ifdef OTEL_VERIF_SHIM
#  include "vf_runtime.h"
#endif
#if defined(__SANITIZE_ADDRESS__)
#  include <sanitizer/asan_interface.h>
#  define VF_HAVE_ASAN 1
#endif

namespace nostd     = opentelemetry::nostd;
namespace common    = opentelemetry::common;
namespace context   = opentelemetry::context;
namespace logs_api  = opentelemetry::logs;
namespace trace_api = opentelemetry::trace;
namespace sdklogs   = opentelemetry::sdk::logs;
namespace sdkres    = opentelemetry::sdk::resource;
namespace sdkscope  = opentelemetry::sdk::instrumentationscope;
using vf::Rng;

// ==========================================================================================
// canonical values
// ==========================================================================================
enum Alt
{
  A_BOOL,
  A_I32,
  A_I64,
  A_U32,
  A_DBL,
  A_CSTR,
  A_SV,
  A_SPAN_BOOL,
  A_SPAN_I32,
  A_SPAN_I64,
  A_SPAN_U32,
  A_SPAN_DBL,
  A_SPAN_SV,
  A_U64,
  A_SPAN_U64,
  A_SPAN_U8,
  A_COUNT
};
static const char *const kAltName[A_COUNT] = {"bool",         "int32",       "int64",        "uint32",
                                              "double",       "cstring",     "string_view",  "span<bool>",
                                              "span<int32>",  "span<int64>", "span<uint32>", "span<double>",
                                              "span<string_view>", "uint64", "span<uint64>", "span<uint8>"};

// canonical form of a value: class (alternative; const char* and string_view are one class
// "string" because the statement is about the value, not the variant index) + serialized bytes
struct CV
{
  int cls = -1;
  std::string bytes;
  bool dead = false;  // a string view whose storage was already dead (ASan-poisoned) when it was looked at
  bool operator==(const CV &o) const { return !dead && !o.dead && cls == o.cls && bytes == o.bytes; }
  bool operator!=(const CV &o) const { return !(*this == o); }
};

// Set while an emit whose arguments include a DIRECTLY passed owning container (KDirect below) is
// in flight and being verified (sequential engine, ASan build only): the capture visitor then asks
// ASan whether the storage behind an exported string view is still alive BEFORE reading it, so a
// view of a dead temporary becomes a value-level violation with a precise class instead of a
// sanitizer abort.  Never set for any other shape: their behaviour is unchanged.
static bool g_probe_dead_views = false;

static void put_u64(std::string &s, uint64_t v)
{
  s.append(reinterpret_cast<const char *>(&v), 8);
}

struct CaptureVisitor
{
  template <class T>
  static CV scalar(int cls, T v)
  {
    CV c;
    c.cls = cls;
    c.bytes.assign(reinterpret_cast<const char *>(&v), sizeof(T));
    return c;
  }
  template <class T>
  static CV array(int cls, nostd::span<const T> v)
  {
    CV c;
    c.cls = cls;
    put_u64(c.bytes, v.size());
    if (v.size())
      c.bytes.append(reinterpret_cast<const char *>(v.data()), v.size() * sizeof(T));  // raw bytes, no typed loads
    return c;
  }
  CV operator()(bool v) const { return scalar<uint8_t>(A_BOOL, v ? 1 : 0); }
  CV operator()(int32_t v) const { return scalar(A_I32, v); }
  CV operator()(int64_t v) const { return scalar(A_I64, v); }
  CV operator()(uint32_t v) const { return scalar(A_U32, v); }
  CV operator()(uint64_t v) const { return scalar(A_U64, v); }
  CV operator()(double v) const { return scalar(A_DBL, v); }
  CV operator()(const char *v) const
  {
    CV c;
    c.cls = A_SV;
    if (v)
      c.bytes.assign(v);
    else
      c.bytes = std::string("\0<null const char*>", 19);
    return c;
  }
  CV operator()(nostd::string_view v) const
  {
    CV c;
    c.cls = A_SV;
#ifdef VF_HAVE_ASAN
    if (g_probe_dead_views && v.size() && __asan_region_is_poisoned(const_cast<char *>(v.data()), v.size()))
    {
      c.dead  = true;
      c.bytes = std::string("\0<dead storage>", 15) + std::to_string(v.size());
      return c;
    }
#endif
    c.bytes.assign(v.data(), v.size());
    return c;
  }
  CV operator()(nostd::span<const bool> v) const { return array(A_SPAN_BOOL, v); }
  CV operator()(nostd::span<const int32_t> v) const { return array(A_SPAN_I32, v); }
  CV operator()(nostd::span<const int64_t> v) const { return array(A_SPAN_I64, v); }
  CV operator()(nostd::span<const uint32_t> v) const { return array(A_SPAN_U32, v); }
  CV operator()(nostd::span<const uint64_t> v) const { return array(A_SPAN_U64, v); }
  CV operator()(nostd::span<const double> v) const { return array(A_SPAN_DBL, v); }
  CV operator()(nostd::span<const uint8_t> v) const { return array(A_SPAN_U8, v); }
  CV operator()(nostd::span<const nostd::string_view> v) const
  {
    CV c;
    c.cls = A_SPAN_SV;
    put_u64(c.bytes, v.size());
    for (size_t i = 0; i < v.size(); ++i)
    {
      put_u64(c.bytes, v[i].size());
      c.bytes.append(v[i].data(), v[i].size());
    }
    return c;
  }
};

static CV capture(const common::AttributeValue &v)
{
  return nostd::visit(CaptureVisitor{}, v);
}

static std::string show_cv(const CV &v)
{
  if (v.cls < 0)
    return "<none>";
  if (v.dead)
    return "string:<a view of storage that was already dead (ASan-poisoned) at Export time>" +
           std::string(v.bytes.size() > 15 ? "(" + v.bytes.substr(15) + ")" : "");
  std::string s = v.cls == A_SV ? "string" : kAltName[v.cls];
  if (v.cls == A_SV)
    return s + ":\"" + vf::show(v.bytes, 48) + "\"(" + std::to_string(v.bytes.size()) + ")";
  size_t n = std::min<size_t>(v.bytes.size(), 40);
  return s + ":" + vf::hexs(v.bytes.data(), n) + (v.bytes.size() > n ? "..." : "") + "(" +
         std::to_string(v.bytes.size()) + "B)";
}

// ==========================================================================================
// caller-owned storage that is killed after the emitting call returned
// ==========================================================================================
static inline void scrib_bytes(char *p, size_t n)
{
  for (size_t i = 0; i < n; ++i)
    p[i] = static_cast<char>(p[i] ^ 0x5a ^ (i & 1 ? 0x21 : 0));
}
static std::string scrib_copy(std::string s)
{
  if (!s.empty())
    scrib_bytes(&s[0], s.size());
  return s;
}
static const char kDecoy[] = "\x5aSCRIBBLED";  // what a scribbled string_view element points at

struct Killable
{
  virtual ~Killable() {}
  virtual void scribble() = 0;  // every byte / element changes, stays readable
  virtual void release()  = 0;  // freed
};

struct Bytes final : Killable  // exact size, not terminated
{
  char *p;
  size_t n;
  explicit Bytes(const std::string &s) : n(s.size())
  {
    p = static_cast<char *>(malloc(n ? n : 1));
    if (n)
      memcpy(p, s.data(), n);
    else
      p[0] = 0x7f;
  }
  ~Bytes() override { free(p); }
  void scribble() override
  {
    if (p)
    {
      scrib_bytes(p, n);
      if (n == 0)
        p[0] ^= 0x5a;
    }
  }
  void release() override
  {
    free(p);
    p = nullptr;
  }
  nostd::string_view view() const { return nostd::string_view(p, n); }
};

struct CStr final : Killable  // n characters + terminator, exact size; terminator survives scribbling
{
  // The empty C string gets one spare byte: scribbling turns it into "Z", so that a record which
  // kept the pointer is caught BY VALUE (there is no other byte to change) before the freeing
  // pass is allowed to run; all non-empty strings are exact-size.
  char *p;
  size_t n;
  explicit CStr(const std::string &s) : n(s.size())
  {
    p = static_cast<char *>(malloc(n ? n + 1 : 2));
    memcpy(p, s.data(), n);
    p[n] = 0;
    if (!n)
      p[1] = 0;
  }
  ~CStr() override { free(p); }
  void scribble() override
  {
    if (p && n)
      scrib_bytes(p, n);
    else if (p)
      p[0] = 'Z';
  }
  void release() override
  {
    free(p);
    p = nullptr;
  }
};

struct StdStr final : Killable  // a caller std::string
{
  std::unique_ptr<std::string> s;
  explicit StdStr(const std::string &v) : s(new std::string(v)) {}
  void scribble() override
  {
    if (s && !s->empty())
      scrib_bytes(&(*s)[0], s->size());
  }
  void release() override { s.reset(); }
};

template <class T>
static T flip(T v)
{
  return static_cast<T>(v ^ static_cast<T>(0x5a5a5a5a5a5a5a5aull));
}
template <>
bool flip<bool>(bool v)
{
  return !v;
}
template <>
double flip<double>(double v)
{
  uint64_t b;
  memcpy(&b, &v, 8);
  b ^= 0x5a5a5a5a5a5a5a5aull;
  memcpy(&v, &b, 8);
  return v;
}

template <class T>
struct Arr final : Killable
{
  T *p;
  size_t n;
  explicit Arr(size_t count) : n(count) { p = static_cast<T *>(malloc(n ? n * sizeof(T) : 1)); }
  ~Arr() override { free(p); }
  void scribble() override
  {
    for (size_t i = 0; p && i < n; ++i)
      p[i] = flip<T>(p[i]);
  }
  void release() override
  {
    free(p);
    p = nullptr;
  }
};

struct SvArr final : Killable  // the array of views of a string array (elements live in their own Bytes)
{
  nostd::string_view *p;
  size_t n;
  explicit SvArr(size_t count) : n(count)
  {
    p = static_cast<nostd::string_view *>(malloc(n ? n * sizeof(nostd::string_view) : 1));
    for (size_t i = 0; i < n; ++i)
      new (p + i) nostd::string_view();
  }
  ~SvArr() override { free(p); }
  void scribble() override
  {
    for (size_t i = 0; p && i < n; ++i)
      p[i] = nostd::string_view(kDecoy, sizeof(kDecoy) - 1);
  }
  void release() override
  {
    free(p);
    p = nullptr;
  }
};

typedef std::pair<nostd::string_view, common::AttributeValue> KvPair;

struct PairArr final : Killable  // backing array of a span<pair<string_view, AttributeValue>>
{
  KvPair *p;
  size_t n;
  explicit PairArr(size_t count) : n(count)
  {
    p = static_cast<KvPair *>(malloc(n ? n * sizeof(KvPair) : 1));
    for (size_t i = 0; i < n; ++i)
      new (p + i) KvPair();
  }
  ~PairArr() override { free(p); }
  void scribble() override
  {
    for (size_t i = 0; p && i < n; ++i)
      p[i] = KvPair(nostd::string_view(kDecoy, sizeof(kDecoy) - 1), static_cast<int64_t>(0x5a5a));
  }
  void release() override
  {
    free(p);
    p = nullptr;
  }
};

struct FnKill final : Killable
{
  std::function<void()> s, f;
  FnKill(std::function<void()> scrib, std::function<void()> fre) : s(std::move(scrib)), f(std::move(fre)) {}
  void scribble() override { s(); }
  void release() override { f(); }
};

// payload = storage a body/attribute VALUE refers to; other = keys, names, containers
struct Arena
{
  std::vector<std::unique_ptr<Killable>> payload, other;
  template <class T, class... A>
  T *add(bool is_payload, A &&...a)
  {
    T *t = new T(std::forward<A>(a)...);
    (is_payload ? payload : other).emplace_back(t);
    return t;
  }
  void scribble(bool payload_too)
  {
    for (auto &k : other)
      k->scribble();
    if (payload_too)
      for (auto &k : payload)
        k->scribble();
  }
  void release()
  {
    for (auto &k : other)
      k->release();
    for (auto &k : payload)
      k->release();
  }
};

// ==========================================================================================
// generators (domain A)
// ==========================================================================================
static std::string gen_string(Rng &r, bool allow_nul)
{
  static const std::string printable =
      "abcdefghijklmnopqrstuvwxyzABCXYZ0123456789 _-./:=,;%\"\\{}";
  std::string s;
  switch (r.below(14))
  {
    case 0:
      return "";
    case 1:
      s = std::string(1, static_cast<char>(r.below(256)));
      break;
    case 2:
      s = std::string("ab\0cd", 5) + r.bytes(static_cast<size_t>(r.range(0, 3)), printable);
      break;
    case 3:
      s = r.anybytes(static_cast<size_t>(r.range(1, 12)));
      break;
    case 4:
      s = r.bytes(r.chance(1, 5) ? 4096 : static_cast<size_t>(r.range(100, 300)), printable);
      break;
    case 5:
      s = std::string(static_cast<size_t>(r.range(1, 4)), static_cast<char>(0x80 + r.below(0x80)));
      break;
    default:
      s = r.bytes(static_cast<size_t>(r.range(1, 24)), printable);
  }
  if (!allow_nul)
    for (auto &ch : s)
      if (ch == 0)
        ch = 'N';
  return s;
}

static size_t array_size(Rng &r)
{
  unsigned c = static_cast<unsigned>(r.below(40));
  if (c == 0)
    return 4096;
  if (c < 7)
    return 0;
  if (c < 13)
    return 1;
  return static_cast<size_t>(r.range(2, 8));
}

static int64_t pick_i64(Rng &r)
{
  switch (r.below(8))
  {
    case 0:
      return 0;
    case 1:
      return -1;
    case 2:
      return std::numeric_limits<int64_t>::min();
    case 3:
      return std::numeric_limits<int64_t>::max();
    case 4:
      return r.range(-1000, 1000);
    default:
      return static_cast<int64_t>(r.next());
  }
}
static uint64_t pick_u64(Rng &r)
{
  switch (r.below(6))
  {
    case 0:
      return 0;
    case 1:
      return std::numeric_limits<uint64_t>::max();
    case 2:
      return static_cast<uint64_t>(std::numeric_limits<int64_t>::max()) + 1;
    default:
      return r.next();
  }
}
static int32_t pick_i32(Rng &r)
{
  switch (r.below(6))
  {
    case 0:
      return 0;
    case 1:
      return std::numeric_limits<int32_t>::min();
    case 2:
      return std::numeric_limits<int32_t>::max();
    default:
      return static_cast<int32_t>(r.next());
  }
}
static uint32_t pick_u32(Rng &r)
{
  switch (r.below(5))
  {
    case 0:
      return 0;
    case 1:
      return std::numeric_limits<uint32_t>::max();
    default:
      return static_cast<uint32_t>(r.next());
  }
}
static double pick_dbl(Rng &r)
{
  switch (r.below(12))
  {
    case 0:
      return 0.0;
    case 1:
      return -0.0;
    case 2:
      return std::numeric_limits<double>::denorm_min();
    case 3:
      return std::numeric_limits<double>::min();
    case 4:
      return std::numeric_limits<double>::max();
    case 5:
      return std::numeric_limits<double>::lowest();
    case 6:
      return std::numeric_limits<double>::infinity();
    case 7:
      return -std::numeric_limits<double>::infinity();
    case 8:
      return -std::numeric_limits<double>::denorm_min();
    default:
    {
      for (;;)
      {
        uint64_t b = r.next();
        double d;
        memcpy(&d, &b, 8);
        if (d == d)  // NaN excluded (domain A)
          return d;
      }
    }
  }
}

// a value as handed to the SDK plus what the model expects
struct Supplied
{
  int alt = -1;
  common::AttributeValue av;  // refers to arena storage
  CV want;
  const char *direct = nullptr;  // != null: element of a DIRECTLY passed owning container of this type
  bool has_inner = false;
  CV inner_scribbled;  // string arrays: elements' characters scribbled, array of views intact
  bool has_after = false;
  CV after_scribble;  // what the caller's buffers hold after scribbling
};

template <class T, class G>
static void gen_array(Rng &r, Arena &a, Supplied &s, G gen_elem)
{
  size_t n    = array_size(r);
  Arr<T> *arr = a.add<Arr<T>>(true, n);
  for (size_t i = 0; i < n; ++i)
    arr->p[i] = gen_elem();
  s.av = nostd::span<const T>(arr->p, n);
}

static Supplied gen_value(Rng &r, Arena &a, int alt)
{
  Supplied s;
  s.alt = alt;
  switch (alt)
  {
    case A_BOOL:
      s.av = r.coin();
      break;
    case A_I32:
      s.av = pick_i32(r);
      break;
    case A_I64:
      s.av = pick_i64(r);
      break;
    case A_U32:
      s.av = pick_u32(r);
      break;
    case A_U64:
      s.av = pick_u64(r);
      break;
    case A_DBL:
      s.av = pick_dbl(r);
      break;
    case A_CSTR:
    {
      CStr *c = a.add<CStr>(true, gen_string(r, false));
      s.av    = static_cast<const char *>(c->p);
      break;
    }
    case A_SV:
    {
      Bytes *b = a.add<Bytes>(true, gen_string(r, true));
      s.av     = b->view();
      break;
    }
    case A_SPAN_BOOL:
      gen_array<bool>(r, a, s, [&] { return r.coin(); });
      break;
    case A_SPAN_I32:
      gen_array<int32_t>(r, a, s, [&] { return pick_i32(r); });
      break;
    case A_SPAN_I64:
      gen_array<int64_t>(r, a, s, [&] { return pick_i64(r); });
      break;
    case A_SPAN_U32:
      gen_array<uint32_t>(r, a, s, [&] { return pick_u32(r); });
      break;
    case A_SPAN_U64:
      gen_array<uint64_t>(r, a, s, [&] { return pick_u64(r); });
      break;
    case A_SPAN_DBL:
      gen_array<double>(r, a, s, [&] { return pick_dbl(r); });
      break;
    case A_SPAN_U8:
      gen_array<uint8_t>(r, a, s, [&] { return static_cast<uint8_t>(r.below(256)); });
      break;
    case A_SPAN_SV:
    {
      size_t n   = array_size(r);
      SvArr *arr = a.add<SvArr>(true, n);
      s.has_inner = true;
      s.inner_scribbled.cls = A_SPAN_SV;
      put_u64(s.inner_scribbled.bytes, n);
      for (size_t i = 0; i < n; ++i)
      {
        std::string e = n > 100 ? r.bytes(static_cast<size_t>(r.range(0, 6)), "abc\0\xff") : gen_string(r, true);
        Bytes *b      = a.add<Bytes>(true, e);
        arr->p[i]     = b->view();
        std::string x = scrib_copy(e);
        put_u64(s.inner_scribbled.bytes, x.size());
        s.inner_scribbled.bytes += x;
      }
      s.av = nostd::span<const nostd::string_view>(arr->p, n);
      break;
    }
  }
  s.want = capture(s.av);
  return s;
}

static std::string rand_bytes(Rng &r, size_t n)
{
  return r.anybytes(n);
}

static uint8_t gen_sev(Rng &r)
{
  if (r.chance(1, 40))
    return static_cast<uint8_t>(r.range(25, 255));  // outside the enum: number must survive, text is don't-care
  return static_cast<uint8_t>(r.below(25));
}

static int64_t gen_ts(Rng &r)
{
  switch (r.below(8))
  {
    case 0:
      return 0;
    case 1:
      return 1;
    case 2:
      return std::numeric_limits<int64_t>::max();
    case 3:
      return -static_cast<int64_t>(r.below(1000000000ull));
    default:
      return static_cast<int64_t>(r.next() >> 2);
  }
}

static int64_t now_ns()
{
  return std::chrono::duration_cast<std::chrono::nanoseconds>(std::chrono::system_clock::now().time_since_epoch())
      .count();
}

// ==========================================================================================
// model of one record, captured record, recording exporter
// ==========================================================================================
struct Ids
{
  std::string tid = std::string(16, '\0');
  std::string sid = std::string(8, '\0');
  uint8_t flags   = 0;
  bool operator==(const Ids &o) const { return tid == o.tid && sid == o.sid && flags == o.flags; }
};

struct Model
{
  bool has_sev = false;
  uint8_t sev  = 0;
  bool has_body = false;
  Supplied body;
  std::map<std::string, Supplied> attrs;  // last write wins
  bool has_ts = false;
  int64_t ts  = 0;
  bool has_obs = false;
  int64_t obs = 0, obs_lo = 0, obs_hi = 0;
  int evt = 0;  // 0 none, 1 id + name, 2 id only
  int64_t evt_id = 0;
  std::string evt_name;
  const char *evt_how = "";
  Ids ids;  // expectation: active span at creation, overridden field by field by explicit arguments
  bool ex_tid = false, ex_sid = false, ex_flags = false;
  bool active_at_create = false;
  bool ctx_changed      = false;  // active span at emit differs from the one at creation
  const char *path      = "";
  uint64_t id           = 0;  // mt mode
  std::string desc;
  // values that were supplied earlier for the same field and then overwritten (classification only)
  std::vector<CV> body_earlier;
  std::map<std::string, std::vector<CV>> attr_earlier;

  void set_body(const Supplied &s)
  {
    if (has_body)
      body_earlier.push_back(body.want);
    has_body = true;
    body     = s;
  }
  void set_attr(const std::string &key, const Supplied &s)
  {
    auto it = attrs.find(key);
    if (it != attrs.end())
      attr_earlier[key].push_back(it->second.want);
    attrs[key] = s;
  }
};

struct Cap
{
  uint8_t sev = 0;
  std::string sev_text;
  CV body;
  std::map<std::string, CV> attrs;
  int64_t ts = 0, obs = 0, evt_id = 0;
  std::string evt_name;
  Ids ids;
  const void *res = nullptr, *scope = nullptr;
  std::string scope_name, scope_version, scope_schema, res_marker;
};

static Cap capture_record(const sdklogs::ReadWriteLogRecord &rec)
{
  Cap c;
  c.sev = static_cast<uint8_t>(rec.GetSeverity());
  auto st = rec.GetSeverityText();
  c.sev_text.assign(st.data(), st.size());
  c.body = capture(rec.GetBody());
  for (auto &kv : rec.GetAttributes())
    c.attrs[kv.first] = capture(kv.second);
  c.ts     = rec.GetTimestamp().time_since_epoch().count();
  c.obs    = rec.GetObservedTimestamp().time_since_epoch().count();
  c.evt_id = rec.GetEventId();
  auto en  = rec.GetEventName();
  c.evt_name.assign(en.data(), en.size());
  c.ids.tid.assign(reinterpret_cast<const char *>(rec.GetTraceId().Id().data()), 16);
  c.ids.sid.assign(reinterpret_cast<const char *>(rec.GetSpanId().Id().data()), 8);
  c.ids.flags = rec.GetTraceFlags().flags();
  const sdkres::Resource &res = rec.GetResource();
  c.res                        = &res;
  auto it                      = res.GetAttributes().find("vf.res");
  if (it != res.GetAttributes().end() && nostd::holds_alternative<std::string>(it->second))
    c.res_marker = nostd::get<std::string>(it->second);
  const sdkscope::InstrumentationScope &sc = rec.GetInstrumentationScope();
  c.scope                                  = &sc;
  c.scope_name                             = sc.GetName();
  c.scope_version                          = sc.GetVersion();
  c.scope_schema                           = sc.GetSchemaURL();
  return c;
}

struct Gate
{
  std::mutex m;
  std::condition_variable cv;
  bool open = true;
  void set(bool o)
  {
    {
      std::lock_guard<std::mutex> g(m);
      open = o;
    }
    cv.notify_all();
  }
  void wait_open()
  {
    std::unique_lock<std::mutex> l(m);
    cv.wait(l, [this] { return open; });
  }
};

struct Sink
{
  std::string kind;  // simple | batch | multi-simple | multi-batch
  bool deferred = false;
  Gate *gate    = nullptr;
  std::mutex mu;
  std::vector<Cap> caps;
  size_t seen         = 0;
  size_t null_records = 0;
  const char *k3() const { return kind[0] == 'm' ? "multi" : kind.c_str(); }
};

class RecExporter final : public sdklogs::LogRecordExporter
{
public:
  explicit RecExporter(std::shared_ptr<Sink> s) : s_(std::move(s)) {}
  std::unique_ptr<sdklogs::Recordable> MakeRecordable() noexcept override
  {
    return std::unique_ptr<sdklogs::Recordable>(new sdklogs::ReadWriteLogRecord());
  }
  opentelemetry::sdk::common::ExportResult Export(
      const nostd::span<std::unique_ptr<sdklogs::Recordable>> &records) noexcept override
  {
    // a deferred exporter looks at the record only after the emitting thread killed its buffers
    if (s_->deferred && s_->gate)
      s_->gate->wait_open();
    for (auto &r : records)
    {
      if (!r)
      {
        std::lock_guard<std::mutex> g(s_->mu);
        ++s_->null_records;
        continue;
      }
      Cap c = capture_record(*static_cast<sdklogs::ReadWriteLogRecord *>(r.get()));
      std::lock_guard<std::mutex> g(s_->mu);
      s_->caps.push_back(std::move(c));
    }
    return opentelemetry::sdk::common::ExportResult::kSuccess;
  }
  bool ForceFlush(std::chrono::microseconds) noexcept override { return true; }
  bool Shutdown(std::chrono::microseconds) noexcept override { return true; }

private:
  std::shared_ptr<Sink> s_;
};

class SilentLogHandler final : public opentelemetry::sdk::common::internal_log::LogHandler
{
public:
  void Handle(opentelemetry::sdk::common::internal_log::LogLevel, const char *, int, const char *,
              const opentelemetry::sdk::common::AttributeMap &) noexcept override
  {
    vf::report().count("sdk_diagnostics");
  }
};

// ==========================================================================================
// per-thread stack of attached contexts (the active-span model)
// ==========================================================================================
struct Frame
{
  int kind = 0;  // 0 span, 1 unrelated key (active span unchanged), 2 empty context (no span), 3 null span
  Ids ids;
  std::unique_ptr<trace_api::Scope> scope;
  nostd::unique_ptr<context::Token> token;
};

static Ids gen_ids(Rng &r)
{
  Ids i;
  if (r.chance(1, 25))
    return i;  // an all-zero (invalid) identity
  i.tid   = rand_bytes(r, 16);
  i.sid   = rand_bytes(r, 8);
  i.flags = r.coin() ? static_cast<uint8_t>(r.below(2)) : static_cast<uint8_t>(r.below(256));
  return i;
}
static trace_api::TraceId mk_tid(const std::string &b)
{
  return trace_api::TraceId(nostd::span<const uint8_t, 16>(reinterpret_cast<const uint8_t *>(b.data()), 16));
}
static trace_api::SpanId mk_sid(const std::string &b)
{
  return trace_api::SpanId(nostd::span<const uint8_t, 8>(reinterpret_cast<const uint8_t *>(b.data()), 8));
}
static trace_api::SpanContext mk_ctx(const Ids &i, bool remote)
{
  return trace_api::SpanContext(mk_tid(i.tid), mk_sid(i.sid), trace_api::TraceFlags(i.flags), remote);
}

struct ThreadCtx
{
  std::vector<Frame> frames;
  bool active(Ids *out) const
  {
    for (size_t i = frames.size(); i-- > 0;)
    {
      if (frames[i].kind == 0)
      {
        *out = frames[i].ids;
        return true;
      }
      if (frames[i].kind == 2 || frames[i].kind == 3)
        return false;
    }
    return false;
  }
  void push(Rng &r)
  {
    Frame f;
    unsigned c = static_cast<unsigned>(r.below(20));
    if (c < 15)
    {
      f.kind = 0;
      f.ids  = gen_ids(r);
      nostd::shared_ptr<trace_api::Span> sp(new trace_api::DefaultSpan(mk_ctx(f.ids, r.coin())));
      f.scope.reset(new trace_api::Scope(sp));
    }
    else if (c < 17)
    {
      f.kind  = 1;
      f.token = context::RuntimeContext::Attach(
          context::RuntimeContext::GetCurrent().SetValue("vf.noise", static_cast<int64_t>(r.below(100))));
    }
    else if (c < 19)
    {
      f.kind  = 2;
      f.token = context::RuntimeContext::Attach(context::Context{});
    }
    else
    {
      f.kind = 3;
      nostd::shared_ptr<trace_api::Span> none;
      f.scope.reset(new trace_api::Scope(none));
    }
    frames.push_back(std::move(f));
  }
  void pop()
  {
    if (!frames.empty())
      frames.pop_back();  // Scope / Token destructor detaches
  }
  void unwind()
  {
    while (!frames.empty())
      frames.pop_back();
  }
  ~ThreadCtx() { unwind(); }
};

static Model fresh_model(const ThreadCtx &tc)
{
  Model m;
  Ids a;
  if (tc.active(&a))
  {
    m.ids              = a;
    m.active_at_create = true;
  }
  return m;
}

// ==========================================================================================
// argument kinds of EmitLogRecord(args...) and the fixed list of instantiations
// ==========================================================================================
typedef nostd::unique_ptr<logs_api::LogRecord> RecPtr;

struct Hooks
{
  std::function<void()> before, after;
};

struct EmitCtx
{
  Rng &r;
  Arena &arena;
  Model &m;
  const std::vector<std::string> &keypool;
  uint64_t mt_id;  // != 0: every attribute argument also carries ("vf.id", mt_id)
  Hooks *hooks;
  uint64_t *hash;
};

struct CallCtx
{
  logs_api::Logger &l;
  RecPtr *rec;
};

static void note(EmitCtx &c, uint64_t v)
{
  *c.hash = vf::mix(*c.hash, v);
}

struct KBase
{
  static constexpr bool is_attr   = false;  // an attribute argument that can carry the id attribute of the threaded run
  static constexpr bool is_noname = false;
  static constexpr bool is_direct = false;  // an owning container handed over directly (KDirBase)
};

struct KSev : KBase
{
  uint8_t v;
  explicit KSev(EmitCtx &c) : v(gen_sev(c.r)) { note(c, 100 + v); }
  void model(Model &m)
  {
    m.has_sev = true;
    m.sev     = v;
  }
  logs_api::Severity arg() { return static_cast<logs_api::Severity>(v); }
};

struct KEvt : KBase  // EventId with a name; the EventId copies the name at construction
{
  int64_t id;
  std::string name;
  std::unique_ptr<logs_api::EventId> e;
  explicit KEvt(EmitCtx &c) : id(pick_i64(c.r)), name(gen_string(c.r, c.r.chance(1, 12)))
  {
    Bytes tmp(name);
    e.reset(new logs_api::EventId(id, tmp.view()));
    c.r.coin() ? tmp.scribble() : tmp.release();
    note(c, 200 + vf::fnv1a(name));
  }
  void model(Model &m)
  {
    m.evt      = 1;
    m.evt_id   = id;
    m.evt_name = name;
    m.evt_how  = name.find('\0') != std::string::npos ? "eventid-arg-embedded-nul" : "eventid-arg";
  }
  const logs_api::EventId &arg() { return *e; }
};

struct KEvt0 : KBase  // EventId without a name
{
  static constexpr bool is_noname = true;
  int64_t id;
  std::unique_ptr<logs_api::EventId> e;
  explicit KEvt0(EmitCtx &c) : id(pick_i64(c.r)), e(new logs_api::EventId(id)) { note(c, 201); }
  void model(Model &m)
  {
    m.evt     = 2;
    m.evt_id  = id;
    m.evt_how = "eventid-arg-noname";
  }
  const logs_api::EventId &arg() { return *e; }
};

struct KEvtInt : KBase  // the int64 event id of Log()/Trace()...: EventId{id} is built inside the API
{
  static constexpr bool is_noname = true;
  int64_t id;
  explicit KEvtInt(EmitCtx &c) : id(pick_i64(c.r)) { note(c, 202); }
  void model(Model &m)
  {
    m.evt     = 2;
    m.evt_id  = id;
    m.evt_how = "int64-event-id";
  }
  int64_t arg() { return id; }
};

struct KCtx : KBase
{
  Ids i;
  bool remote;
  explicit KCtx(EmitCtx &c) : i(gen_ids(c.r)), remote(c.r.coin()) { note(c, 300); }
  void model(Model &m)
  {
    m.ids    = i;
    m.ex_tid = m.ex_sid = m.ex_flags = true;
  }
  trace_api::SpanContext arg() { return mk_ctx(i, remote); }
};
struct KSid : KBase
{
  std::string b;
  explicit KSid(EmitCtx &c) : b(c.r.chance(1, 20) ? std::string(8, '\0') : rand_bytes(c.r, 8)) { note(c, 301); }
  void model(Model &m)
  {
    m.ids.sid = b;
    m.ex_sid  = true;
  }
  trace_api::SpanId arg() { return mk_sid(b); }
};
struct KTid : KBase
{
  std::string b;
  explicit KTid(EmitCtx &c) : b(c.r.chance(1, 20) ? std::string(16, '\0') : rand_bytes(c.r, 16)) { note(c, 302); }
  void model(Model &m)
  {
    m.ids.tid = b;
    m.ex_tid  = true;
  }
  trace_api::TraceId arg() { return mk_tid(b); }
};
struct KFlg : KBase
{
  uint8_t f;
  explicit KFlg(EmitCtx &c) : f(static_cast<uint8_t>(c.r.below(256))) { note(c, 303); }
  void model(Model &m)
  {
    m.ids.flags = f;
    m.ex_flags  = true;
  }
  trace_api::TraceFlags arg() { return trace_api::TraceFlags(f); }
};
struct KTs : KBase
{
  int64_t v;
  explicit KTs(EmitCtx &c) : v(gen_ts(c.r)) { note(c, 400); }
  void model(Model &m)
  {
    m.has_ts = true;
    m.ts     = v;
  }
  common::SystemTimestamp arg() { return common::SystemTimestamp(std::chrono::nanoseconds(v)); }
};
struct KTp : KBase
{
  int64_t v;
  explicit KTp(EmitCtx &c) : v(gen_ts(c.r)) { note(c, 401); }
  void model(Model &m)
  {
    m.has_ts = true;
    m.ts     = v;
  }
  std::chrono::system_clock::time_point arg()
  {
    return std::chrono::system_clock::time_point(
        std::chrono::duration_cast<std::chrono::system_clock::duration>(std::chrono::nanoseconds(v)));
  }
};

// ---- body kinds
struct KBodyBase : KBase
{
  Supplied s;
  void model(Model &m)
  {
    m.set_body(s);
  }
};
struct KBodyAv : KBodyBase  // common::AttributeValue, every alternative
{
  explicit KBodyAv(EmitCtx &c)
  {
    s = gen_value(c.r, c.arena, static_cast<int>(c.r.below(A_COUNT)));
    note(c, 500 + s.alt);
  }
  const common::AttributeValue &arg() { return s.av; }
};
struct KBodySv : KBodyBase
{
  explicit KBodySv(EmitCtx &c)
  {
    s = gen_value(c.r, c.arena, A_SV);
    note(c, 520);
  }
  nostd::string_view arg() { return nostd::get<nostd::string_view>(s.av); }
};
struct KBodyCs : KBodyBase
{
  explicit KBodyCs(EmitCtx &c)
  {
    s = gen_value(c.r, c.arena, A_CSTR);
    note(c, 521);
  }
  const char *arg() { return nostd::get<const char *>(s.av); }
};
struct KBodyStr : KBodyBase  // a caller std::string (converted to a view by the API)
{
  StdStr *str;
  explicit KBodyStr(EmitCtx &c)
  {
    str    = c.arena.add<StdStr>(true, gen_string(c.r, true));
    s.alt  = A_SV;
    s.av   = nostd::string_view(str->s->data(), str->s->size());
    s.want = capture(s.av);
    note(c, 522);
  }
  const std::string &arg() { return *str->s; }
};
struct KBodyBool : KBodyBase
{
  explicit KBodyBool(EmitCtx &c)
  {
    s = gen_value(c.r, c.arena, A_BOOL);
    note(c, 523);
  }
  bool arg() { return nostd::get<bool>(s.av); }
};
struct KBodyI64 : KBodyBase
{
  explicit KBodyI64(EmitCtx &c)
  {
    s = gen_value(c.r, c.arena, A_I64);
    note(c, 524);
  }
  int64_t arg() { return nostd::get<int64_t>(s.av); }
};
struct KBodyDbl : KBodyBase
{
  explicit KBodyDbl(EmitCtx &c)
  {
    s = gen_value(c.r, c.arena, A_DBL);
    note(c, 525);
  }
  double arg() { return nostd::get<double>(s.av); }
};
struct KBodySpanI64 : KBodyBase
{
  explicit KBodySpanI64(EmitCtx &c)
  {
    s = gen_value(c.r, c.arena, A_SPAN_I64);
    note(c, 526);
  }
  nostd::span<const int64_t> arg() { return nostd::get<nostd::span<const int64_t>>(s.av); }
};
struct KBodySpanSv : KBodyBase
{
  explicit KBodySpanSv(EmitCtx &c)
  {
    s = gen_value(c.r, c.arena, A_SPAN_SV);
    note(c, 527);
  }
  nostd::span<const nostd::string_view> arg() { return nostd::get<nostd::span<const nostd::string_view>>(s.av); }
};

// ---- attribute kinds
struct AttrList
{
  std::vector<std::string> keys;
  std::vector<nostd::string_view> keyviews;  // exact-size caller buffers
  std::vector<Supplied> vals;
};

static std::string gen_key(Rng &r, const std::vector<std::string> &pool)
{
  if (r.chance(3, 4))
    return r.pick(pool);
  return gen_string(r, true);
}

static AttrList gen_attrs(EmitCtx &c)
{
  AttrList l;
  size_t n = static_cast<size_t>(c.r.chance(1, 8) ? 0 : c.r.range(1, 6));
  for (size_t i = 0; i < n; ++i)
  {
    std::string k = gen_key(c.r, c.keypool);
    Supplied v    = gen_value(c.r, c.arena, static_cast<int>(c.r.below(A_COUNT)));
    note(c, 600 + v.alt + vf::fnv1a(k));
    l.keys.push_back(k);
    l.keyviews.push_back(c.arena.add<Bytes>(false, k)->view());
    l.vals.push_back(v);
  }
  if (c.mt_id)
  {
    Supplied v;
    v.alt  = A_I64;
    v.av   = static_cast<int64_t>(c.mt_id);
    v.want = capture(v.av);
    l.keys.push_back("vf.id");
    l.keyviews.push_back(c.arena.add<Bytes>(false, std::string("vf.id"))->view());
    l.vals.push_back(v);
  }
  return l;
}

struct KAttrBase : KBase
{
  static constexpr bool is_attr = true;
  AttrList l;
  void model(Model &m)
  {
    for (size_t i = 0; i < l.keys.size(); ++i)
      m.set_attr(l.keys[i], l.vals[i]);
  }
};

typedef std::vector<KvPair> KvVec;
typedef std::map<std::string, common::AttributeValue> KvMap;

static KvVec *add_vec(EmitCtx &c, const AttrList &l)
{
  auto holder = std::make_shared<std::unique_ptr<KvVec>>(new KvVec());
  for (size_t i = 0; i < l.keys.size(); ++i)
    (*holder)->emplace_back(l.keyviews[i], l.vals[i].av);
  KvVec *raw = holder->get();
  c.arena.add<FnKill>(
      false,
      [holder] {
        if (*holder)
          for (auto &p : **holder)
            p = KvPair(nostd::string_view(kDecoy, sizeof(kDecoy) - 1), static_cast<int64_t>(0x5a5a));
      },
      [holder] { holder->reset(); });
  return raw;
}

struct KAttrVec : KAttrBase  // std::vector<pair<string_view, AttributeValue>>
{
  KvVec *v;
  explicit KAttrVec(EmitCtx &c)
  {
    l = gen_attrs(c);
    v = add_vec(c, l);
  }
  const KvVec &arg() { return *v; }
};

struct KAttrKvi : KAttrBase  // const common::KeyValueIterable &
{
  KvVec *v;
  std::unique_ptr<common::KeyValueIterableView<KvVec>> view;
  explicit KAttrKvi(EmitCtx &c)
  {
    l = gen_attrs(c);
    v = add_vec(c, l);
    view.reset(new common::KeyValueIterableView<KvVec>(*v));
  }
  const common::KeyValueIterable &arg() { return *view; }
};

struct KAttrSpan : KAttrBase  // span<const pair<string_view, AttributeValue>> (what MakeAttributes returns)
{
  PairArr *a;
  explicit KAttrSpan(EmitCtx &c)
  {
    l = gen_attrs(c);
    a = c.arena.add<PairArr>(false, l.keys.size());
    for (size_t i = 0; i < l.keys.size(); ++i)
      a->p[i] = KvPair(l.keyviews[i], l.vals[i].av);
  }
  nostd::span<const KvPair> arg() { return nostd::span<const KvPair>(a->p, a->n); }
};

struct KAttrMapBase : KAttrBase
{
  KvMap *mp;
  std::map<std::string, Supplied> final_;
  void build(EmitCtx &c)
  {
    l           = gen_attrs(c);
    auto holder = std::make_shared<std::unique_ptr<KvMap>>(new KvMap());
    for (size_t i = 0; i < l.keys.size(); ++i)
    {
      (**holder)[l.keys[i]] = l.vals[i].av;  // the container itself resolves duplicates
      final_[l.keys[i]]     = l.vals[i];
    }
    mp = holder->get();
    c.arena.add<FnKill>(
        false,
        [holder] {
          if (*holder)
            for (auto &p : **holder)
              p.second = static_cast<int64_t>(0x5a5a);
        },
        [holder] { holder->reset(); });
  }
  void model(Model &m)
  {
    for (auto &kv : final_)
      m.set_attr(kv.first, kv.second);
  }
};
struct KAttrMap : KAttrMapBase  // std::map<std::string, AttributeValue>
{
  explicit KAttrMap(EmitCtx &c) { build(c); }
  const KvMap &arg() { return *mp; }
};
struct KAttrView : KAttrMapBase  // KeyValueIterableView<map> rvalue (a class derived from KeyValueIterable)
{
  explicit KAttrView(EmitCtx &c) { build(c); }
  common::KeyValueIterableView<KvMap> arg() { return common::KeyValueIterableView<KvMap>(*mp); }
};

// ---- attribute containers handed over DIRECTLY (no MakeAttributes, no KeyValueIterableView, no
// AttributeValue elements) whose elements OWN their storage: std::string keys with std::string or
// arithmetic mapped values.  The API walks the caller's container itself and hands the record views
// of the elements, so what the container held when the call was made is what every exporter must
// see (simple processors: exactly; batch processors: the record's non-owning views then refer to
// the caller's container, which is the known value-owned finding, classified as before).
template <class V>
struct DirVal;
template <>
struct DirVal<std::string>
{
  static constexpr int alt = A_SV;
  static std::string gen(Rng &r) { return gen_string(r, true); }
  static common::AttributeValue view(const std::string &s) { return nostd::string_view(s.data(), s.size()); }
  static void scribble(std::string &s)
  {
    if (!s.empty())
      scrib_bytes(&s[0], s.size());  // in place: the characters stay where they are
  }
};
template <>
struct DirVal<int>
{
  static constexpr int alt = A_I32;
  static int gen(Rng &r) { return pick_i32(r); }
  static common::AttributeValue view(const int &v) { return static_cast<int32_t>(v); }
  static void scribble(int &v) { v = flip<int>(v); }
};
template <>
struct DirVal<int64_t>
{
  static constexpr int alt = A_I64;
  static int64_t gen(Rng &r) { return pick_i64(r); }
  static common::AttributeValue view(const int64_t &v) { return v; }
  static void scribble(int64_t &v) { v = flip<int64_t>(v); }
};
template <>
struct DirVal<double>
{
  static constexpr int alt = A_DBL;
  static double gen(Rng &r) { return pick_dbl(r); }
  static common::AttributeValue view(const double &v) { return v; }
  static void scribble(double &v) { v = flip<double>(v); }
};

static inline void dir_scrib_key(const std::string &) {}  // keys of associative containers are const
static inline void dir_scrib_key(std::string &k) { DirVal<std::string>::scribble(k); }

template <class C>
struct DirCont;
template <class V>
struct DirCont<std::map<std::string, V>>
{
  typedef V mapped;
  static void put(std::map<std::string, V> &c, const std::string &k, V v) { c[k] = std::move(v); }
};
template <class V>
struct DirCont<std::unordered_map<std::string, V>>
{
  typedef V mapped;
  static void put(std::unordered_map<std::string, V> &c, const std::string &k, V v) { c[k] = std::move(v); }
};
template <class V>
struct DirCont<std::vector<std::pair<std::string, V>>>
{
  typedef V mapped;
  // duplicates stay in the sequence: the API sets them in order, so the last one wins
  static void put(std::vector<std::pair<std::string, V>> &c, const std::string &k, V v)
  {
    c.emplace_back(k, std::move(v));
  }
};

template <class C>
struct KDirBase : KBase
{
  static constexpr bool is_direct = true;
  typedef typename DirCont<C>::mapped V;
  struct Entry
  {
    std::string key;
    Supplied val;
  };
  C *c = nullptr;
  std::vector<Entry> entries;  // in the container's own iteration order
  void build(EmitCtx &ctx, const char *label, const char *passed_as)
  {
    auto &R     = vf::report();
    size_t n    = static_cast<size_t>(ctx.r.chance(1, 8) ? 0 : ctx.r.range(1, 6));
    auto holder = std::make_shared<std::unique_ptr<C>>(new C());
    note(ctx, 800 + vf::fnv1a(label));
    for (size_t i = 0; i < n; ++i)
    {
      std::string k = gen_key(ctx.r, ctx.keypool);
      note(ctx, 810 + vf::fnv1a(k));
      DirCont<C>::put(**holder, k, DirVal<V>::gen(ctx.r));
    }
    c = holder->get();
    // the container is complete: nothing moves any more, so views of its elements are stable
    for (auto &e : *c)
    {
      Supplied s;
      s.alt    = DirVal<V>::alt;
      s.av     = DirVal<V>::view(e.second);
      s.want   = capture(s.av);
      s.direct = label;
      entries.push_back(Entry{e.first, s});
    }
    // the container IS the storage of its values (payload): scribbled in place / destroyed after the call
    ctx.arena.add<FnKill>(
        true,
        [holder] {
          if (*holder)
            for (auto &e : **holder)
            {
              dir_scrib_key(e.first);
              DirVal<V>::scribble(e.second);
            }
        },
        [holder] { holder->reset(); });
#ifdef VF_HAVE_ASAN
    if (!ctx.mt_id)
      g_probe_dead_views = true;
#endif
    R.count(std::string("direct_calls_") + label);
    R.count(std::string("direct_calls_path_") + ctx.m.path);
    R.count(std::string("direct_passed_as_") + passed_as);
    if (entries.size() > 1)
      R.count("direct_containers_with_several_elements");
  }
  void model(Model &m)
  {
    for (auto &e : entries)
      m.set_attr(e.key, e.val);
  }
};

typedef std::map<std::string, std::string> DMapStr;
typedef std::unordered_map<std::string, std::string> DUMapStr;
typedef std::vector<std::pair<std::string, std::string>> DVecStr;
typedef std::map<std::string, int> DMapInt;
typedef std::unordered_map<std::string, int64_t> DUMapI64;
typedef std::vector<std::pair<std::string, double>> DVecDbl;

#define VF_DIRECT(NAME, CONT, LABEL, PASSED, ARGTYPE, ARGEXPR)           \
  struct NAME : KDirBase<CONT>                                           \
  {                                                                      \
    explicit NAME(EmitCtx &ctx) { build(ctx, LABEL, PASSED); }           \
    ARGTYPE arg() { return ARGEXPR; }                                    \
  }
VF_DIRECT(KDirMapStr, DMapStr, "map<string,string>", "const_lvalue", const DMapStr &, *c);
VF_DIRECT(KDirUMapStr, DUMapStr, "unordered_map<string,string>", "const_lvalue", const DUMapStr &, *c);
VF_DIRECT(KDirVecStr, DVecStr, "vector<pair<string,string>>", "const_lvalue", const DVecStr &, *c);
VF_DIRECT(KDirMapInt, DMapInt, "map<string,int>", "const_lvalue", const DMapInt &, *c);
VF_DIRECT(KDirUMapI64, DUMapI64, "unordered_map<string,int64>", "const_lvalue", const DUMapI64 &, *c);
VF_DIRECT(KDirVecDbl, DVecDbl, "vector<pair<string,double>>", "const_lvalue", const DVecDbl &, *c);
VF_DIRECT(KDirMapStrLv, DMapStr, "map<string,string>", "lvalue", DMapStr &, *c);
VF_DIRECT(KDirUMapStrRv, DUMapStr, "unordered_map<string,string>", "rvalue", DUMapStr &&, std::move(*c));
VF_DIRECT(KDirVecStrRv, DVecStr, "vector<pair<string,string>>", "rvalue", DVecStr &&, std::move(*c));

// ---- how the arguments are handed over
struct CallBase
{
  static constexpr bool needs_rec = false;
  static constexpr bool wrapper   = false;
  static void pre(Model &) {}
};
struct CEmit : CallBase
{
  template <class... A>
  static void call(CallCtx &c, A &&...a)
  {
    c.l.EmitLogRecord(std::forward<A>(a)...);
  }
};
struct CEmitRec : CallBase
{
  static constexpr bool needs_rec = true;
  template <class... A>
  static void call(CallCtx &c, A &&...a)
  {
    c.l.EmitLogRecord(std::move(*c.rec), std::forward<A>(a)...);
  }
};
struct CLog : CallBase
{
  static constexpr bool wrapper = true;
  template <class... A>
  static void call(CallCtx &c, A &&...a)
  {
    c.l.Log(std::forward<A>(a)...);
  }
};
#define VF_WRAPPER(NAME, METHOD, SEV)                     \
  struct NAME : CallBase                                  \
  {                                                       \
    static constexpr bool wrapper = true;                 \
    static void pre(Model &m)                             \
    {                                                     \
      m.has_sev = true;                                   \
      m.sev     = SEV;                                    \
    }                                                     \
    template <class... A>                                 \
    static void call(CallCtx &c, A &&...a)                \
    {                                                     \
      c.l.METHOD(std::forward<A>(a)...);                  \
    }                                                     \
  }
VF_WRAPPER(CTrace, Trace, 1);
VF_WRAPPER(CDebug, Debug, 5);
VF_WRAPPER(CInfo, Info, 9);
VF_WRAPPER(CWarn, Warn, 13);
VF_WRAPPER(CError, Error, 17);
VF_WRAPPER(CFatal, Fatal, 21);

template <class Call, class... K>
struct ShapeT
{
  static void run(EmitCtx &c, CallCtx &cc) { go(c, cc, std::index_sequence_for<K...>{}); }
  template <size_t... I>
  static void go(EmitCtx &c, CallCtx &cc, std::index_sequence<I...>)
  {
    // braced initialisation: the argument objects are generated strictly left to right
    std::tuple<std::unique_ptr<K>...> ks{std::unique_ptr<K>(new K(c))...};
    Call::pre(c.m);
    int order[] = {0, (std::get<I>(ks)->model(c.m), 0)...};  // the model applies them left to right
    (void)order;
    c.hooks->before();
    Call::call(cc, std::get<I>(ks)->arg()...);
    c.hooks->after();
  }
};

template <class... K>
struct Any
{
  static constexpr bool attr      = false;
  static constexpr bool noname    = false;
  static constexpr int n_direct   = 0;
  static constexpr int n_attrargs = 0;  // attribute arguments of every kind
};
template <class K0, class... K>
struct Any<K0, K...>
{
  static constexpr bool attr      = K0::is_attr || Any<K...>::attr;
  static constexpr bool noname    = K0::is_noname || Any<K...>::noname;
  static constexpr int n_direct   = (K0::is_direct ? 1 : 0) + Any<K...>::n_direct;
  static constexpr int n_attrargs = ((K0::is_direct || K0::is_attr) ? 1 : 0) + Any<K...>::n_attrargs;
};

struct ShapeEntry
{
  const char *name;
  void (*run)(EmitCtx &, CallCtx &);
  bool needs_rec, wrapper, has_attr, noname;
  int n_direct, n_attrargs;
};
#define SH(CALL, ...)                                                                                  \
  {                                                                                                    \
    #CALL "(" #__VA_ARGS__ ")", &ShapeT<CALL, ##__VA_ARGS__>::run, CALL::needs_rec, CALL::wrapper,     \
        Any<__VA_ARGS__>::attr, Any<__VA_ARGS__>::noname, Any<__VA_ARGS__>::n_direct,                  \
        Any<__VA_ARGS__>::n_attrargs                                                                   \
  }

static const ShapeEntry kShapes[] = {
    // every kind alone
    SH(CEmit), SH(CEmit, KSev), SH(CEmit, KEvt), SH(CEmit, KEvt0), SH(CEmit, KCtx), SH(CEmit, KSid),
    SH(CEmit, KTid), SH(CEmit, KFlg), SH(CEmit, KTs), SH(CEmit, KTp), SH(CEmit, KBodySv), SH(CEmit, KBodyCs),
    SH(CEmit, KBodyStr), SH(CEmit, KBodyAv), SH(CEmit, KBodyBool), SH(CEmit, KBodyI64), SH(CEmit, KBodyDbl),
    SH(CEmit, KBodySpanI64), SH(CEmit, KBodySpanSv), SH(CEmit, KAttrKvi), SH(CEmit, KAttrView),
    SH(CEmit, KAttrMap), SH(CEmit, KAttrVec), SH(CEmit, KAttrSpan),
    // two arguments that write the same field, both orders; repeated kinds
    SH(CEmit, KCtx, KSid), SH(CEmit, KSid, KCtx), SH(CEmit, KCtx, KTid), SH(CEmit, KTid, KCtx),
    SH(CEmit, KCtx, KFlg), SH(CEmit, KFlg, KCtx), SH(CEmit, KTs, KTp), SH(CEmit, KTp, KTs),
    SH(CEmit, KBodySv, KBodyAv), SH(CEmit, KBodyAv, KBodySv), SH(CEmit, KBodyCs, KBodyAv),
    SH(CEmit, KBodyAv, KBodyCs), SH(CEmit, KAttrMap, KAttrSpan), SH(CEmit, KAttrSpan, KAttrMap),
    SH(CEmit, KAttrKvi, KAttrVec), SH(CEmit, KAttrVec, KAttrKvi), SH(CEmit, KSev, KSev), SH(CEmit, KEvt, KEvt),
    SH(CEmit, KBodyAv, KBodyAv), SH(CEmit, KAttrVec, KAttrVec), SH(CEmit, KTid, KSid, KFlg),
    SH(CEmit, KSid, KTid, KFlg, KCtx), SH(CEmit, KCtx, KTid, KSid, KFlg), SH(CEmit, KEvt0, KEvt),
    SH(CEmit, KEvt, KEvt0),
    // full records, different relative orders
    SH(CEmit, KSev, KBodySv), SH(CEmit, KSev, KBodySv, KAttrKvi), SH(CEmit, KSev, KEvt, KBodySv, KAttrKvi),
    SH(CEmit, KAttrSpan, KBodyAv, KSev, KTs), SH(CEmit, KBodyAv, KAttrMap, KCtx, KTp, KEvt, KSev),
    SH(CEmit, KTs, KSev, KTid, KSid, KFlg, KBodyCs, KAttrVec), SH(CEmit, KEvt, KSev, KAttrView, KBodyAv, KCtx, KTs),
    SH(CEmit, KAttrKvi, KCtx, KBodyAv, KEvt, KTp, KSev), SH(CEmit, KSev, KBodyAv, KAttrSpan),
    SH(CEmit, KAttrSpan, KSev, KBodyAv), SH(CEmit, KBodyAv, KAttrSpan, KSev),
    SH(CEmit, KSev, KAttrVec, KBodyAv, KAttrMap, KBodySv),
    // the user-facing wrappers
    SH(CTrace, KBodySv), SH(CDebug, KAttrSpan, KBodyAv), SH(CInfo, KEvt, KBodySv, KAttrKvi),
    SH(CWarn, KEvtInt, KBodySv, KAttrKvi), SH(CError, KBodySv, KAttrKvi), SH(CFatal, KBodySv),
    SH(CInfo, KBodyAv, KCtx, KAttrMap), SH(CLog, KSev, KBodySv), SH(CLog, KSev, KEvt, KBodySv, KAttrKvi),
    SH(CLog, KSev, KEvtInt, KBodySv, KAttrKvi), SH(CLog, KSev, KBodySv, KAttrKvi), SH(CWarn, KTs, KBodyCs),
    // an existing record plus arguments
    SH(CEmitRec), SH(CEmitRec, KSev, KBodyAv), SH(CEmitRec, KAttrSpan), SH(CEmitRec, KCtx),
    SH(CEmitRec, KBodySv, KAttrKvi, KEvt), SH(CEmitRec, KTs, KTid, KAttrMap, KBodyAv, KSev),
    SH(CEmitRec, KSid, KFlg), SH(CEmitRec, KEvt0),
    // owning containers handed over directly: alone (const lvalue / lvalue / rvalue) ...
    SH(CEmit, KDirMapStr), SH(CEmit, KDirUMapStr), SH(CEmit, KDirVecStr), SH(CEmit, KDirMapInt),
    SH(CEmit, KDirUMapI64), SH(CEmit, KDirVecDbl), SH(CEmit, KDirMapStrLv), SH(CEmit, KDirUMapStrRv),
    SH(CEmit, KDirVecStrRv),
    // ... as the only attribute argument next to other fields ...
    SH(CEmit, KSev, KBodySv, KDirMapStr), SH(CEmit, KDirUMapStr, KBodyAv, KSev),
    SH(CEmit, KTs, KDirVecStr, KBodyCs), SH(CEmit, KEvt, KSev, KDirUMapI64, KBodyAv, KCtx, KTs),
    // ... with other attribute arguments before / after (last write wins per key across arguments) ...
    SH(CEmit, KSev, KDirVecStr, KAttrKvi), SH(CEmit, KAttrSpan, KDirMapStr, KBodySv),
    SH(CEmit, KDirVecStr, KDirMapStr), SH(CEmit, KDirMapInt, KDirUMapStr, KAttrMap),
    SH(CEmit, KAttrVec, KDirVecDbl, KSev), SH(CEmit, KAttrKvi, KDirUMapStrRv),
    // ... through the severity wrappers ...
    SH(CInfo, KBodySv, KDirMapStr), SH(CWarn, KBodySv, KDirUMapStr), SH(CError, KDirVecStr, KBodyAv),
    SH(CDebug, KBodySv, KDirMapInt), SH(CTrace, KDirVecStrRv), SH(CFatal, KEvt, KBodySv, KDirUMapStr, KAttrKvi),
    SH(CInfo, KDirMapStrLv, KDirVecDbl), SH(CWarn, KDirUMapI64, KBodySv),
    // ... and on an existing record
    SH(CEmitRec, KDirMapStr), SH(CEmitRec, KSev, KDirVecStr, KBodyAv), SH(CEmitRec, KDirUMapStr, KAttrSpan),
    SH(CEmitRec, KDirMapInt, KDirVecStrRv), SH(CEmitRec, KDirUMapI64, KDirVecDbl)};
static const size_t kNumShapes = sizeof(kShapes) / sizeof(kShapes[0]);

// ==========================================================================================
// runtime path: setters in random order on a created record
// ==========================================================================================
static void apply_setters(EmitCtx &c, logs_api::LogRecord &rec)
{
  Rng &r   = c.r;
  Model &m = c.m;
  size_t n = static_cast<size_t>(r.range(0, 12));
  for (size_t i = 0; i < n; ++i)
  {
    unsigned k = static_cast<unsigned>(r.below(100));
    if (k < 30)
    {
      std::string key = gen_key(r, c.keypool);
      Supplied v      = gen_value(r, c.arena, static_cast<int>(r.below(A_COUNT)));
      rec.SetAttribute(c.arena.add<Bytes>(false, key)->view(), v.av);
      m.set_attr(key, v);
      note(c, 700 + v.alt + vf::fnv1a(key));
    }
    else if (k < 50)
    {
      Supplied v = gen_value(r, c.arena, static_cast<int>(r.below(A_COUNT)));
      rec.SetBody(v.av);
      m.set_body(v);
      note(c, 720 + v.alt);
    }
    else if (k < 59)
    {
      uint8_t s = gen_sev(r);
      rec.SetSeverity(static_cast<logs_api::Severity>(s));
      m.has_sev = true;
      m.sev     = s;
      note(c, 740);
    }
    else if (k < 67)
    {
      m.ts     = gen_ts(r);
      m.has_ts = true;
      rec.SetTimestamp(common::SystemTimestamp(std::chrono::nanoseconds(m.ts)));
      note(c, 741);
    }
    else if (k < 73)
    {
      m.obs     = gen_ts(r);
      m.has_obs = true;
      rec.SetObservedTimestamp(common::SystemTimestamp(std::chrono::nanoseconds(m.obs)));
      note(c, 742);
    }
    else if (k < 82)
    {
      m.evt_id = pick_i64(r);
      if (r.chance(1, 4))
      {
        rec.SetEventId(m.evt_id);
        m.evt     = 2;
        m.evt_how = "set-event-id-noname";
      }
      else
      {
        m.evt_name = gen_string(r, true);
        rec.SetEventId(m.evt_id, c.arena.add<Bytes>(false, m.evt_name)->view());
        m.evt     = 1;
        m.evt_how = "set-event-id";
      }
      note(c, 743);
    }
    else if (k < 88)
    {
      m.ids.tid = rand_bytes(r, 16);
      m.ex_tid  = true;
      rec.SetTraceId(mk_tid(m.ids.tid));
      note(c, 744);
    }
    else if (k < 94)
    {
      m.ids.sid = rand_bytes(r, 8);
      m.ex_sid  = true;
      rec.SetSpanId(mk_sid(m.ids.sid));
      note(c, 745);
    }
    else
    {
      m.ids.flags = static_cast<uint8_t>(r.below(256));
      m.ex_flags  = true;
      rec.SetTraceFlags(trace_api::TraceFlags(m.ids.flags));
      note(c, 746);
    }
  }
}

// ==========================================================================================
// the environment of one case: provider, processors, loggers
// ==========================================================================================
struct LoggerInfo
{
  nostd::shared_ptr<logs_api::Logger> l;
  bool enabled = true;
  std::string scope_name, version, schema;
  const void *scope_ptr = nullptr;
};

struct Pending
{
  RecPtr rec;
  Model m;
  size_t logger = 0;
  // what the provider held when the record was created: sinks[0..nsinks) must receive it
  size_t nsinks = 0;
  size_t nprocs = 0;
};

template <class F>
static auto with_killed(Rng &r, const std::vector<std::string> &strs, F &&f)
{
  std::vector<std::unique_ptr<vf::Buf>> bufs;
  std::vector<nostd::string_view> views;
  for (auto &s : strs)
  {
    bufs.emplace_back(new vf::Buf(s));
    views.emplace_back(bufs.back()->data(), bufs.back()->size());
  }
  auto res  = f(views);
  bool free = r.coin();
  for (auto &b : bufs)
    free ? b->release() : b->scribble();
  return res;
}

struct CaseEnv
{
  bool mt = false;
  Gate gate;
  std::vector<std::shared_ptr<Sink>> sinks;
  std::unique_ptr<sdklogs::LoggerProvider> provider;
  std::vector<LoggerInfo> loggers;
  std::vector<std::string> keypool;
  std::string res_marker;
  const void *res_ptr = nullptr;
  bool any_deferred   = false;
  bool allow_noname   = true;
  std::string desc;
  int conf_variant = 0;
  // Processors handed to the provider after it was built (seq mode, SeqCase::run decides when).
  // sinks[0..attached) belong to processors the provider holds; nprocs = its top-level processors.
  size_t attached  = 0;
  size_t nprocs    = 0;
  bool build_empty = false;  // build the provider without processors, they all arrive later
  std::vector<std::unique_ptr<sdklogs::LogRecordProcessor>> withheld;

  std::unique_ptr<sdklogs::LogRecordProcessor> make_proc(Rng &r, bool batch, bool multi)
  {
    auto s      = std::make_shared<Sink>();
    s->deferred = batch;
    s->kind     = std::string(multi ? "multi-" : "") + (batch ? "batch" : "simple");
    s->gate     = mt ? nullptr : &gate;
    sinks.push_back(s);
    any_deferred |= batch;
    desc += (batch ? "B" : "S");
    std::unique_ptr<sdklogs::LogRecordExporter> ex(new RecExporter(s));
    if (!batch)
      return std::unique_ptr<sdklogs::LogRecordProcessor>(new sdklogs::SimpleLogRecordProcessor(std::move(ex)));
    sdklogs::BatchLogRecordProcessorOptions o;
    static const size_t qs[]  = {64, 2048};
    static const size_t bs[]  = {1, 4, 512};
    static const int delays[] = {1, 2, 5};  // a flush that finds the queue empty waits for the timer
    o.max_queue_size          = mt ? 2048 : r.pick(qs);
    o.max_export_batch_size   = std::min(o.max_queue_size, r.pick(bs));
    o.schedule_delay_millis   = std::chrono::milliseconds(r.pick(delays));
    return std::unique_ptr<sdklogs::LogRecordProcessor>(new sdklogs::BatchLogRecordProcessor(std::move(ex), o));
  }

  bool scope_enabled(const std::string &scope_name) const
  {
    if (conf_variant == 1)
      return scope_name != "vf.disabled";
    if (conf_variant == 2)
      return scope_name.compare(0, 5, "vf.on") == 0;
    return true;
  }

  void build(Rng &r)
  {
    // processors
    std::vector<std::unique_ptr<sdklogs::LogRecordProcessor>> procs;
    unsigned c = static_cast<unsigned>(r.below(20));
    if (c < 7)
      procs.push_back(make_proc(r, false, false));
    else if (c < 14)
      procs.push_back(make_proc(r, true, false));
    else
    {
      desc += "multi[";
      size_t n = static_cast<size_t>(r.range(2, 3));
      for (size_t i = 0; i < n; ++i)
      {
        if (r.chance(1, 8))
        {
          desc += "(";
          std::vector<std::unique_ptr<sdklogs::LogRecordProcessor>> inner;
          size_t k = static_cast<size_t>(r.range(1, 2));
          for (size_t j = 0; j < k; ++j)
            inner.push_back(make_proc(r, r.coin(), true));
          procs.emplace_back(new sdklogs::MultiLogRecordProcessor(std::move(inner)));
          desc += ")";
        }
        else
          procs.push_back(make_proc(r, r.coin(), true));
      }
      desc += "]";
    }
    std::unique_ptr<sdklogs::LogRecordProcessor> late;
    if (procs.size() > 1 && r.chance(1, 4))
    {
      late = std::move(procs.back());
      procs.pop_back();
      desc += "+late";
    }
    if (build_empty)
    {
      withheld = std::move(procs);
      procs.clear();
      if (late)
        withheld.push_back(std::move(late));
      desc += " built-empty";
    }
    // resource: values from buffers that die right after Create
    res_marker            = "res-" + r.bytes(8, "abcdef0123456789");
    sdkres::Resource res = with_killed(r, {res_marker, "c13-harness"}, [&](std::vector<nostd::string_view> &v) {
      return sdkres::Resource::Create({{"vf.res", v[0]}, {"service.name", v[1]}});
    });
    // which scopes are enabled
    conf_variant = static_cast<int>(r.below(4));
    if (conf_variant == 3)
      conf_variant = 0;
    typedef sdkscope::ScopeConfigurator<sdklogs::LoggerConfig> Conf;
    std::unique_ptr<Conf> conf;
    if (conf_variant == 0)
      conf.reset(new Conf(Conf::Builder(sdklogs::LoggerConfig::Default()).Build()));
    else if (conf_variant == 1)
      conf.reset(new Conf(Conf::Builder(sdklogs::LoggerConfig::Enabled())
                              .AddConditionNameEquals("vf.disabled", sdklogs::LoggerConfig::Disabled())
                              .Build()));
    else
      conf.reset(new Conf(Conf::Builder(sdklogs::LoggerConfig::Disabled())
                              .AddCondition(
                                  [](const sdkscope::InstrumentationScope &s) {
                                    return s.GetName().compare(0, 5, "vf.on") == 0;
                                  },
                                  sdklogs::LoggerConfig::Enabled())
                              .Build()));
    desc += " conf" + std::to_string(conf_variant);
    nprocs = procs.size();
    provider.reset(new sdklogs::LoggerProvider(std::move(procs), res, std::move(conf)));
    res_ptr = &provider->GetResource();
    // loggers
    size_t nl = static_cast<size_t>(r.range(1, 3));
    for (size_t i = 0; i < nl; ++i)
    {
      LoggerInfo li;
      unsigned k = static_cast<unsigned>(r.below(4));
      if (conf_variant == 2 && r.chance(1, 2))
        k = 1;  // default-disabled configuration: keep most loggers on the enabled list
      li.scope_name = k == 0 ? "vf.disabled" : (k == 1 ? "vf.on." + std::to_string(i) : "lib" + std::to_string(i) + gen_string(r, false));
      if (li.scope_name.empty())
        li.scope_name = "x";
      li.version = r.coin() ? "" : "1." + std::to_string(r.below(100));
      li.schema  = r.coin() ? "" : "https://example.test/schemas/" + std::to_string(r.below(100));
      std::string lname = "logger-" + std::to_string(i);
      li.l = with_killed(r, {lname, li.scope_name, li.version, li.schema, "v" + std::to_string(i)},
                         [&](std::vector<nostd::string_view> &v) {
                           KvMap sattr;
                           sattr["scope.attr"] = v[4];
                           return provider->GetLogger(v[0], v[1], v[2], v[3], common::KeyValueIterableView<KvMap>(sattr));
                         });
      li.enabled   = scope_enabled(li.scope_name);
      li.scope_ptr = &static_cast<sdklogs::Logger *>(li.l.get())->GetInstrumentationScope();
      loggers.push_back(li);
    }
    if (late)
    {
      provider->AddProcessor(std::move(late));
      ++nprocs;
    }
    attached = build_empty ? 0 : sinks.size();
    // keys: a small pool so that the same key is written several times
    size_t nk = static_cast<size_t>(r.range(2, 6));
    for (size_t i = 0; i < nk; ++i)
      keypool.push_back("k" + std::to_string(i) + r.bytes(static_cast<size_t>(r.range(0, 3)), "abc."));
    if (r.chance(1, 6))
      keypool.push_back("");
  }

  // Hands processors to the provider that already exists: the withheld ones of a provider built
  // empty (all at once, in their order), otherwise one new simple / batch / nested processor.
  void add_processor(Rng &r)
  {
    if (!withheld.empty())
    {
      for (auto &p : withheld)
      {
        provider->AddProcessor(std::move(p));
        ++nprocs;
      }
      withheld.clear();
      desc += " +attached";
    }
    else
    {
      desc += " +added:";
      if (r.chance(1, 8))
      {
        desc += "(";
        std::vector<std::unique_ptr<sdklogs::LogRecordProcessor>> inner;
        size_t k = static_cast<size_t>(r.range(1, 2));
        for (size_t j = 0; j < k; ++j)
          inner.push_back(make_proc(r, r.coin(), true));
        provider->AddProcessor(
            std::unique_ptr<sdklogs::LogRecordProcessor>(new sdklogs::MultiLogRecordProcessor(std::move(inner))));
        desc += ")";
      }
      else
        provider->AddProcessor(make_proc(r, r.coin(), true));
      ++nprocs;
    }
    attached = sinks.size();
  }

  // end of the case: nothing more may arrive
  void finish(const char *mode)
  {
    auto &R = vf::report();
    gate.set(true);
    provider->ForceFlush();
    provider->Shutdown();
    loggers.clear();
    provider.reset();
    for (auto &s : sinks)
    {
      std::lock_guard<std::mutex> g(s->mu);
      if (s->caps.size() != s->seen)
        R.violation("delivered-once", s->kind + ":extra-at-shutdown",
                    std::string(mode) + " " + desc + ": " + std::to_string(s->caps.size() - s->seen) +
                        " record(s) appeared after the last verified emit");
      if (s->null_records)
        R.violation("delivered-once", s->kind + ":null-in-batch", desc + ": Export saw a null recordable");
    }
  }
};

// ==========================================================================================
// the monitor: one captured record against the model
// ==========================================================================================
static const char *const kSevText[25] = {"INVALID", "TRACE",  "TRACE2", "TRACE3", "TRACE4", "DEBUG",  "DEBUG2",
                                         "DEBUG3",  "DEBUG4", "INFO",   "INFO2",  "INFO3",  "INFO4",  "WARN",
                                         "WARN2",   "WARN3",  "WARN4",  "ERROR",  "ERROR2", "ERROR3", "ERROR4",
                                         "FATAL",   "FATAL2", "FATAL3", "FATAL4"};

static bool g_strict_eventid_nul = false;  // --param strict_eventid_nul=1: demand the bytes behind an embedded NUL too

static bool alt_has_pointer(int a)
{
  return a == A_CSTR || a == A_SV || (a >= A_SPAN_BOOL && a <= A_SPAN_SV) || a == A_SPAN_U64 || a == A_SPAN_U8;
}

static std::string id_class(bool explicit_field, const Model &m)
{
  std::string c = explicit_field ? (m.active_at_create ? "explicit-over-active-span" : "explicit-no-active-span")
                                 : (m.active_at_create ? "active-span" : "no-active-span");
  if (m.ctx_changed)
    c += ":context-changed-before-emit";
  return c;
}

// returns the number of violations raised
static int check_value(const char *field, const Supplied &want, const CV *got, const Sink &sink, const Model &m,
                       const std::string &key, bool killed_by_scribble)
{
  auto &R         = vf::report();
  std::string alt = kAltName[want.alt];
  R.count(std::string(field) + "_" + alt + "_" + sink.k3());
  if (want.direct)
  {
    R.count(std::string("attr_direct_") + want.direct + "_" + sink.k3());
    // the verdict that matters most for these: an owning, non-empty string element seen by an
    // exporter that runs inside the emitting call (nothing was scribbled yet: must be exact)
    if (want.alt == A_SV && !want.want.bytes.empty() && !sink.deferred)
      R.count("direct_owning_string_values_at_synchronous_exporter");
  }
  if (got && *got == want.want)
    return 0;
  std::string where = sink.kind + ":" + field + ":" + alt;
  // a wrong value of an element of a directly passed container gets its own class per container type
  std::string where_value = want.direct ? sink.kind + ":container-direct:" + want.direct : where;
  std::string d     = m.desc + " | " + field + (key.empty() ? "" : " key " + vf::show(key, 40)) +
                  (want.direct ? std::string(" (element of a directly passed ") + want.direct + ")" : std::string()) +
                  " at " + sink.kind + " exporter: got " + (got ? show_cv(*got) : "<absent>") + " want " +
                  show_cv(want.want);
  if (got && killed_by_scribble && alt_has_pointer(want.alt) &&
      ((want.has_after && *got == want.after_scribble) || (want.has_inner && *got == want.inner_scribbled)))
  {
    R.violation("value-owned", where,
                d + " — the exported value is what the caller's buffer held AFTER it was scribbled: the record kept "
                    "a view of caller storage");
    return 1;
  }
  // an earlier value of the same field survived a later write
  const std::vector<CV> *earlier = nullptr;
  if (key.empty() && field[0] == 'b')
    earlier = &m.body_earlier;
  else
  {
    auto it = m.attr_earlier.find(key);
    if (it != m.attr_earlier.end())
      earlier = &it->second;
  }
  if (got && earlier && std::find(earlier->begin(), earlier->end(), *got) != earlier->end())
  {
    R.violation(std::string(field) + "-last-write-wins", sink.kind + ":" + m.path,
                d + " — this is a value supplied earlier for the same " + (key.empty() ? "field" : "key"));
    return 1;
  }
  if (!got)
  {
    R.violation(std::string(field) + "-missing", sink.kind + ":" + m.path, d);
    return 1;
  }
  R.violation(std::string(field) + "-value", where_value, d);
  return 1;
}

static int compare(const Model &m, const Cap &c, const Sink &sink, const LoggerInfo &li, const CaseEnv &env,
                   bool killed_by_scribble)
{
  auto &R  = vf::report();
  int bad  = 0;
  auto cls = sink.kind + ":" + m.path;
  auto fail = [&](const std::string &assertion, const std::string &klass, const std::string &detail) {
    R.violation(assertion, klass, m.desc + " | at " + sink.kind + " exporter: " + detail);
    ++bad;
  };
  R.count("deliveries");
  R.count(std::string("deliveries_") + sink.k3());
  // severity
  if (m.has_sev)
  {
    if (c.sev != m.sev)
      fail("severity", cls, "severity " + std::to_string(c.sev) + " want " + std::to_string(m.sev));
    if (m.sev < 25)
    {
      if (c.sev_text != kSevText[m.sev])
        fail("severity-text", cls, "text " + vf::show(c.sev_text) + " want " + kSevText[m.sev]);
    }
    else
      R.count("severity_out_of_enum_text_dontcare");
  }
  else
    R.count("severity_unset_dontcare");
  // body
  if (m.has_body)
    bad += check_value("body", m.body, &c.body, sink, m, "", killed_by_scribble);
  else
    R.count("body_unset_dontcare");
  // attributes: last write wins per key, nothing else
  for (auto &kv : m.attrs)
  {
    auto it = c.attrs.find(kv.first);
    bad += check_value("attr", kv.second, it == c.attrs.end() ? nullptr : &it->second, sink, m, kv.first,
                       killed_by_scribble);
  }
  for (auto &kv : c.attrs)
    if (!m.attrs.count(kv.first))
      fail("attr-extra", cls, "attribute " + vf::show(kv.first, 40) + "=" + show_cv(kv.second) + " was never supplied");
  if (m.attrs.size() > 1)
    R.count("records_with_several_attributes");
  // timestamps
  if (m.has_ts)
  {
    if (c.ts != m.ts)
      fail("timestamp", cls, "timestamp " + std::to_string(c.ts) + " want " + std::to_string(m.ts));
  }
  else
    R.count("timestamp_unset_dontcare");
  if (m.has_obs)
  {
    R.count("observed_explicit");
    if (c.obs != m.obs)
      fail("observed-timestamp", "explicit:" + sink.kind, "observed " + std::to_string(c.obs) + " want " + std::to_string(m.obs));
  }
  else
  {
    // taken by the SDK when the record was created; 2 s slack so a clock step never decides
    const int64_t slack = 2000000000ll;
    if (c.obs < m.obs_lo - slack || c.obs > m.obs_hi + slack)
      fail("observed-timestamp", "defaulted:" + sink.kind,
           "observed " + std::to_string(c.obs) + " outside [" + std::to_string(m.obs_lo) + "," + std::to_string(m.obs_hi) + "]");
  }
  // event id / name
  if (m.evt)
  {
    R.count(std::string("event_") + m.evt_how);
    if (c.evt_id != m.evt_id)
      fail("event-id", std::string(m.evt_how) + ":" + sink.kind,
           "event id " + std::to_string(c.evt_id) + " want " + std::to_string(m.evt_id));
    bool name_ok = c.evt_name == m.evt_name;
    if (m.evt == 1 && !name_ok && !g_strict_eventid_nul && m.evt_name.find('\0') != std::string::npos &&
        m.evt_how[0] == 'e' && c.evt_name == m.evt_name.substr(0, m.evt_name.find('\0')))
    {
      // logs::EventId stores its name as a NUL-terminated char array (public member name_): an
      // EventId built from a view with an embedded NUL IS the C-string prefix.  What was supplied
      // to the emit is the EventId, so the prefix is accepted (don't-care, counted).
      R.count("event_name_embedded_nul_in_eventid_dontcare");
      name_ok = true;
    }
    if (m.evt == 1 && !name_ok)
      fail("event-name", std::string(m.evt_how) + ":" + sink.kind,
           "event name " + vf::show(c.evt_name, 60) + " want " + vf::show(m.evt_name, 60));
  }
  else
    R.count("event_unset_dontcare");
  // trace correlation
  if (c.ids.tid != m.ids.tid)
    fail("trace-id", id_class(m.ex_tid, m) + ":" + m.path,
         "trace id " + vf::hexs(c.ids.tid.data(), 16) + " want " + vf::hexs(m.ids.tid.data(), 16));
  if (c.ids.sid != m.ids.sid)
    fail("span-id", id_class(m.ex_sid, m) + ":" + m.path,
         "span id " + vf::hexs(c.ids.sid.data(), 8) + " want " + vf::hexs(m.ids.sid.data(), 8));
  if (c.ids.flags != m.ids.flags)
    fail("trace-flags", id_class(m.ex_flags, m) + ":" + m.path,
         "flags " + std::to_string(c.ids.flags) + " want " + std::to_string(m.ids.flags));
  bool any_ex = m.ex_tid || m.ex_sid || m.ex_flags;
  if (any_ex && m.active_at_create)
    R.count("explicit_over_active");
  if (any_ex && !m.active_at_create)
    R.count("explicit_no_active");
  if (!any_ex && m.active_at_create)
    R.count("correlated_with_active_span");
  if (!any_ex && !m.active_at_create)
    R.count("no_active_span");
  if (m.ctx_changed)
    R.count("context_changed_between_create_and_emit");
  // scope and resource
  if (c.scope != li.scope_ptr)
    fail("scope-identity", cls, "instrumentation scope object is not the emitting logger's");
  if (c.scope_name != li.scope_name || c.scope_version != li.version || c.scope_schema != li.schema)
    fail("scope-values", cls,
         "scope " + vf::show(c.scope_name, 40) + "/" + vf::show(c.scope_version) + "/" + vf::show(c.scope_schema, 60) +
             " want " + vf::show(li.scope_name, 40) + "/" + vf::show(li.version) + "/" + vf::show(li.schema, 60));
  if (c.res != env.res_ptr)
    fail("resource-identity", cls, "resource object is not the provider's");
  if (c.res_marker != env.res_marker)
    fail("resource-values", cls, "resource vf.res " + vf::show(c.res_marker) + " want " + vf::show(env.res_marker));
  R.count(std::string("path_") + m.path);
  return bad;
}

// what the caller's buffers hold after scribbling (for the value-owned classification)
static void recapture_after_scribble(Model &m)
{
  if (m.has_body && alt_has_pointer(m.body.alt))
  {
    m.body.after_scribble = capture(m.body.av);
    m.body.has_after      = true;
  }
  for (auto &kv : m.attrs)
    if (alt_has_pointer(kv.second.alt))
    {
      kv.second.after_scribble = capture(kv.second.av);
      kv.second.has_after      = true;
    }
}

// ==========================================================================================
// one emitting call (shared by both modes)
// ==========================================================================================
enum Path
{
  PATH_ARGS,
  PATH_SETTERS,
  PATH_RECARGS
};

static Pending create_pending(const ThreadCtx &tc, CaseEnv &env, size_t logger)
{
  Pending p;
  p.logger   = logger;
  int64_t lo = now_ns();
  p.rec      = env.loggers[logger].l->CreateLogRecord();
  int64_t hi = now_ns();
  p.nsinks   = env.attached;
  p.nprocs   = env.nprocs;
  p.m        = fresh_model(tc);
  p.m.obs_lo = lo;
  p.m.obs_hi = hi;
  return p;
}

static const ShapeEntry &pick_shape(Rng &r, bool needs_rec, bool must_have_attr, bool allow_noname)
{
  for (;;)
  {
    const ShapeEntry &s = kShapes[r.below(kNumShapes)];
    if (s.needs_rec != needs_rec || (must_have_attr && !s.has_attr) || (s.noname && !allow_noname))
      continue;
    return s;
  }
}

static void count_direct(const ShapeEntry &s)
{
  if (!s.n_direct)
    return;
  auto &R = vf::report();
  R.count("direct_shape_calls");
  R.count(s.n_attrargs == 1 ? "direct_sole_attribute_argument" : "direct_combined_with_other_attribute_arguments");
}

// Generates the arguments from `er`, performs the call, leaves the model in `m`.
static void do_call(CaseEnv &env, const ThreadCtx &tc, Rng &er, Path path, size_t logger, Pending *pending,
                    Arena &arena, Model &m, uint64_t mt_id, Hooks &hooks, uint64_t &hash)
{
  LoggerInfo &li = env.loggers[logger];
  EmitCtx c{er, arena, m, env.keypool, mt_id, &hooks, &hash};
  CallCtx cc{*li.l, nullptr};
  if (path == PATH_ARGS)
  {
    const ShapeEntry &s = pick_shape(er, false, mt_id != 0, env.allow_noname);
    m                   = fresh_model(tc);  // the record is created inside the call
    m.path              = s.wrapper ? "wrapper" : "args";
    m.desc              = std::string(s.name);
    m.id                = mt_id;
    auto user_before    = hooks.before;
    auto user_after     = hooks.after;
    Hooks h;
    h.before = [&] {
      user_before();
      m.obs_lo = now_ns();
    };
    h.after = [&] {
      m.obs_hi = now_ns();
      user_after();
    };
    c.hooks = &h;
    hash    = vf::mix(hash, static_cast<uint64_t>(&s - kShapes));
    s.run(c, cc);
    vf::report().count("shape_calls");
    count_direct(s);
    return;
  }
  m      = std::move(pending->m);
  m.id   = mt_id;
  RecPtr rec = std::move(pending->rec);
  if (mt_id)
  {
    Supplied v;
    v.alt  = A_I64;
    v.av   = static_cast<int64_t>(mt_id);
    v.want = capture(v.av);
    rec->SetAttribute("vf.id", v.av);
    m.set_attr("vf.id", v);
  }
  Ids now_active;
  bool has_now  = tc.active(&now_active);
  m.ctx_changed = has_now != m.active_at_create || (has_now && !m.ex_tid && !(now_active == m.ids));
  if (path == PATH_SETTERS)
  {
    m.path = "setters";
    m.desc = "CreateLogRecord+setters+EmitLogRecord(record)";
    hash   = vf::mix(hash, 9001);
    apply_setters(c, *rec);
    hooks.before();
    li.l->EmitLogRecord(std::move(rec));
    hooks.after();
    return;
  }
  const ShapeEntry &s = pick_shape(er, true, false, env.allow_noname);
  m.path              = "record+args";
  m.desc              = std::string("CreateLogRecord+") + s.name;
  hash                = vf::mix(hash, static_cast<uint64_t>(&s - kShapes));
  if (er.coin())
    apply_setters(c, *rec);  // arguments come later, so they win over what the setters wrote
  cc.rec = &rec;
  s.run(c, cc);
  vf::report().count("shape_calls");
  count_direct(s);
}

// ==========================================================================================
// mode=seq: one thread, verify after every emit
// ==========================================================================================
enum Kill
{
  KILL_SCRIBBLE,
  KILL_FREE
};

struct SeqCase
{
  CaseEnv env;
  ThreadCtx tc;
  std::vector<Pending> pend;
  uint64_t hash = 0;
  bool did_emit = false;
  std::string trace;

  // one emit pass; returns true when the monitor raised nothing
  bool pass(uint64_t sub, Path path, size_t logger, Pending *pending, Kill kill)
  {
    auto &R = vf::report();
    Rng er(sub);
    Arena arena;
    Model m;
    Hooks hooks;
    g_probe_dead_views = false;  // switched on by a directly passed owning container among the arguments
    hooks.before = [&] { env.gate.set(false); };  // deferred exporters wait until the buffers are dead
    hooks.after  = [] {};
    Pending fresh;
    if (path != PATH_ARGS && !pending)
    {
      fresh   = create_pending(tc, env, logger);
      pending = &fresh;
    }
    LoggerInfo &li = env.loggers[logger];
    // Exporters configured when the record was created must receive it; those of processors added
    // since then (only possible for a record that waited in `pend`) are not judged.  C13-w4-2.
    size_t must   = pending ? pending->nsinks : env.attached;
    bool grown    = li.enabled && must < env.attached;
    bool from_one = grown && pending->nprocs == 1;
    bool from_nil = grown && pending->nprocs == 0;
    do_call(env, tc, er, path, logger, pending, arena, m, 0, hooks, hash);
    // the call returned: the caller's storage dies
    if (kill == KILL_SCRIBBLE)
    {
      arena.scribble(true);
      recapture_after_scribble(m);
    }
    else
      arena.release();
    env.gate.set(true);
    if (env.any_deferred)
      env.provider->ForceFlush();
    R.count("emits");
    R.count(kill == KILL_FREE ? "emits_buffers_freed" : "emits_buffers_scribbled");
    if (grown)
    {
      R.count("emits_of_records_created_before_a_processor_was_added");
      if (from_one)
        R.count("emits_of_records_created_under_one_processor_emitted_under_several");
      if (from_nil)
        R.count("emits_of_records_created_under_no_processor_emitted_under_some");
    }
    int bad = 0;
    for (size_t si = 0; si < env.attached; ++si)
    {
      Sink &s = *env.sinks[si];
      std::unique_lock<std::mutex> g(s.mu);
      size_t fresh_n = s.caps.size() - s.seen;
      std::vector<Cap> got(s.caps.begin() + static_cast<long>(s.seen), s.caps.end());
      s.seen = s.caps.size();
      g.unlock();
      if (!li.enabled)
      {
        if (fresh_n)
        {
          R.violation("disabled-emits-nothing", s.kind + ":" + m.path,
                      m.desc + ": a disabled logger delivered " + std::to_string(fresh_n) + " record(s)");
          ++bad;
        }
        continue;
      }
      if (si >= must)
      {
        R.count(fresh_n ? "processor_added_after_creation_received_dontcare"
                        : "processor_added_after_creation_not_received_dontcare");
        continue;
      }
      if (fresh_n != 1)
      {
        R.violation("delivered-once",
                    s.kind + (fresh_n ? ":duplicate" : ":missing") + (grown ? ":processor-added-before-emit" : ""),
                    m.desc + " [" + env.desc + "]: " + std::to_string(fresh_n) + " deliveries to this processor's exporter");
        ++bad;
      }
      else if (grown)
        R.count("deliveries_of_records_created_before_a_processor_was_added");
      for (auto &c : got)
        bad += compare(m, c, s, li, env, kill == KILL_SCRIBBLE);
    }
    if (!li.enabled)
      R.count("disabled_emits");
    g_probe_dead_views = false;
    did_emit = true;
    return bad == 0;
  }

  void emit(Rng &r, Kill kill)
  {
    auto &R       = vf::report();
    size_t logger = static_cast<size_t>(r.below(env.loggers.size()));
    Path path     = PATH_ARGS;
    unsigned d    = static_cast<unsigned>(r.below(100));
    Pending taken;
    Pending *pending = nullptr;
    if (d >= 45)
    {
      path = d < 75 ? PATH_SETTERS : PATH_RECARGS;
      if (!pend.empty() && r.chance(2, 3))
      {
        size_t i = static_cast<size_t>(r.below(pend.size()));
        taken    = std::move(pend[i]);
        pend.erase(pend.begin() + static_cast<long>(i));
        pending = &taken;
        // usually through the logger that created it; one time in five through another enabled logger of the same
        // provider (a record prepared by a helper and handed over): it must carry the scope of the logger it is
        // emitted through (from seeded change C13-w6-2)
        if (logger != taken.logger && env.loggers[logger].enabled && env.loggers[taken.logger].enabled &&
            vf::mix(taken.m.obs_lo, 0x51) % 5 == 0)
          R.count("records_emitted_through_another_logger");
        else
          logger = taken.logger;
      }
    }
    uint64_t sub = r.next();
    if (trace.size() < 400)
      trace += std::string(path == PATH_ARGS ? "emit-args" : (path == PATH_SETTERS ? "emit-setters" : "emit-record+args")) +
               (env.loggers[logger].enabled ? " " : "(disabled) ");
    // a record that waited while a processor was added is not judged at that processor's exporter
    bool partial = pending && env.loggers[logger].enabled && pending->nsinks < env.attached;
    bool clean   = pass(sub, path, logger, pending, KILL_SCRIBBLE);
    if (kill == KILL_FREE)
    {
      // same arguments again (same sub-seed), this time the buffers are freed — but only if the
      // value-level pass found nothing AND looked at every exporter the second record reaches, so
      // a known ownership finding never becomes a crash
      if (clean && !partial)
      {
        pass(sub, path, logger, nullptr, KILL_FREE);
        R.count("free_passes");
      }
      else
        R.count(clean ? "free_pass_skipped_not_every_exporter_judged" : "free_pass_skipped_after_finding");
    }
  }

  void null_record(Rng &r)
  {
    auto &R        = vf::report();
    size_t logger  = static_cast<size_t>(r.below(env.loggers.size()));
    LoggerInfo &li = env.loggers[logger];
    RecPtr none;
    if (r.coin())
      li.l->EmitLogRecord(std::move(none));
    else
    {
      Arena arena;
      Supplied b = gen_value(r, arena, A_SV);
      li.l->EmitLogRecord(std::move(none), logs_api::Severity::kWarn, nostd::get<nostd::string_view>(b.av));
    }
    if (env.any_deferred)
      env.provider->ForceFlush();
    R.count("null_records");
    for (auto &sp : env.sinks)
    {
      std::lock_guard<std::mutex> g(sp->mu);
      if (sp->caps.size() != sp->seen)
      {
        R.violation("null-record-ignored", sp->kind, "EmitLogRecord(null record) delivered a record [" + env.desc + "]");
        sp->seen = sp->caps.size();
      }
    }
  }

  void run(uint64_t seed, Kill kill)
  {
    auto &R = vf::report();
    Rng r(seed);
    // Processors added to the existing provider (C13-w4-2) are decided from a stream of their own,
    // so the programs themselves are the same as without them.
    Rng ar(vf::mix(seed, 0xadd9c13));
    env.build_empty = ar.chance(1, 24);
    env.build(r);
    unsigned adds_left = ar.chance(1, 3) ? (ar.chance(1, 4) ? 2 : 1) : 0;
    if (env.build_empty && !adds_left)
      adds_left = 1;
    size_t nops = static_cast<size_t>(r.range(10, 28));
    for (size_t op = 0; op < nops; ++op)
    {
      // add a processor at a seeded point at which a record of an enabled logger is created and not
      // yet emitted; a provider built empty gets its processors half way through at the latest
      bool waiting = false;
      for (auto &p : pend)
        waiting |= env.loggers[p.logger].enabled;
      if ((adds_left && waiting && ar.chance(1, 3)) || (!env.withheld.empty() && op == nops / 2))
      {
        env.add_processor(ar);
        if (adds_left)
          --adds_left;
        hash = vf::mix(hash, 7700 + env.attached);
        trace += "add-processor ";
        R.count(waiting ? "processors_added_while_a_record_was_pending" : "processors_added_no_record_pending");
      }
      unsigned k = static_cast<unsigned>(r.below(100));
      if (k < 18)
      {
        if (tc.frames.size() < 5)
        {
          tc.push(r);
          trace += "push" + std::to_string(tc.frames.back().kind) + " ";
        }
        else
          tc.pop();
        R.maxi("scope_depth", tc.frames.size());
      }
      else if (k < 30)
      {
        tc.pop();
        trace += "pop ";
      }
      else if (k < 42)
      {
        if (pend.size() < 3)
        {
          pend.push_back(create_pending(tc, env, static_cast<size_t>(r.below(env.loggers.size()))));
          trace += "create ";
        }
      }
      else if (k < 45)
        null_record(r);
      else
        emit(r, kill);
    }
    // created but never emitted records must not show up anywhere
    if (!pend.empty())
      R.count("records_created_never_emitted", pend.size());
    pend.clear();
    tc.unwind();
    size_t nloggers = env.loggers.size();
    env.finish("seq");
    if (did_emit)
      R.nontrivial(vf::mix(hash, vf::fnv1a(env.desc)));
    if (R.want_sample(5))
      R.sample("seq case [" + env.desc + ", " + std::to_string(nloggers) + " logger(s)]: " + trace);
  }
};

// ==========================================================================================
// mode=mt: several threads, shared processors, records matched by the vf.id attribute
// ==========================================================================================
struct MtEmit
{
  std::unique_ptr<Arena> arena;
  Model m;
  size_t logger;
};

static void mt_thread(CaseEnv &env, uint64_t seed, unsigned t, std::vector<MtEmit> &out, uint64_t &hash)
{
  auto &R = vf::report();
  Rng r(vf::mix(seed, 1000 + t));
  ThreadCtx tc;
  std::vector<Pending> pend;
  uint64_t seq = 0;
  size_t nops  = static_cast<size_t>(r.range(8, 24));
  for (size_t op = 0; op < nops; ++op)
  {
    unsigned k = static_cast<unsigned>(r.below(100));
    if (k < 20)
    {
      if (tc.frames.size() < 5)
        tc.push(r);
      else
        tc.pop();
      R.maxi("scope_depth_mt", tc.frames.size());
    }
    else if (k < 32)
      tc.pop();
    else if (k < 44)
    {
      if (pend.size() < 3)
        pend.push_back(create_pending(tc, env, static_cast<size_t>(r.below(env.loggers.size()))));
    }
    else
    {
      size_t logger = static_cast<size_t>(r.below(env.loggers.size()));
      Path path     = PATH_ARGS;
      unsigned d    = static_cast<unsigned>(r.below(100));
      Pending taken, fresh;
      Pending *pending = nullptr;
      if (d >= 40)
      {
        path = d < 72 ? PATH_SETTERS : PATH_RECARGS;
        if (!pend.empty() && r.chance(2, 3))
        {
          taken = std::move(pend.back());
          pend.pop_back();
          pending = &taken;
          logger  = taken.logger;
        }
        else
        {
          fresh   = create_pending(tc, env, logger);
          pending = &fresh;
        }
      }
      MtEmit e;
      e.arena.reset(new Arena());
      e.logger = logger;
      Hooks hooks;
      hooks.before = [] {};
      hooks.after  = [] {};
      Rng er(r.next());
      uint64_t id = (static_cast<uint64_t>(t + 1) << 32) | ++seq;
      do_call(env, tc, er, path, logger, pending, *e.arena, e.m, id, hooks, hash);
      // keys, names and containers die now; storage of VALUES stays alive until the case was
      // verified (ownership of values is the sequential engine's business, and scribbling what a
      // defective record still points at would be a harness-made data race)
      e.arena->scribble(false);
      R.count("emits");
      R.count("emits_mt");
      out.push_back(std::move(e));
    }
  }
  tc.unwind();
}

static void mt_case(uint64_t seed)
{
  auto &R = vf::report();
  Rng r(seed);
  CaseEnv env;
  env.mt           = true;
  env.allow_noname = false;
  env.build(r);
  unsigned nthreads = static_cast<unsigned>(r.range(1, 4));
  // the spawning thread has its own active span: it must never leak into another thread's records
  ThreadCtx main_tc;
  if (r.chance(2, 3))
    main_tc.push(r);
#ifdef OTEL_VERIF_SHIM
  vf_configure(seed, 30000, 5000, 0, 0, 200);
#endif
  std::vector<std::vector<MtEmit>> outs(nthreads);
  std::vector<uint64_t> hashes(nthreads, 0);
  std::vector<std::thread> th;
  for (unsigned t = 0; t < nthreads; ++t)
    th.emplace_back([&, t] { mt_thread(env, seed, t, outs[t], hashes[t]); });
  for (auto &x : th)
    x.join();
  env.provider->ForceFlush();
#ifdef OTEL_VERIF_SHIM
  vf_configure(0, 0, 0, 0, 0, 0);
#endif
  R.count("mt_cases_threads_" + std::to_string(nthreads));
  // verify
  uint64_t chash = 0;
  size_t total   = 0;
  for (auto &sp : env.sinks)
  {
    Sink &s = *sp;
    std::lock_guard<std::mutex> g(s.mu);
    std::map<uint64_t, std::vector<const Cap *>> by_id;
    for (auto &c : s.caps)
    {
      auto it = c.attrs.find("vf.id");
      if (it == c.attrs.end() || it->second.cls != A_I64)
      {
        R.violation("delivered-once", s.kind + ":unidentified", "mt [" + env.desc + "]: a record without its id attribute was exported");
        continue;
      }
      uint64_t id;
      memcpy(&id, it->second.bytes.data(), 8);
      by_id[id].push_back(&c);
    }
    s.seen = s.caps.size();
    for (unsigned t = 0; t < nthreads; ++t)
      for (auto &e : outs[t])
      {
        LoggerInfo &li = env.loggers[e.logger];
        auto it        = by_id.find(e.m.id);
        size_t n       = it == by_id.end() ? 0 : it->second.size();
        if (!li.enabled)
        {
          if (n)
            R.violation("disabled-emits-nothing", s.kind + ":" + e.m.path, "mt " + e.m.desc + ": a disabled logger delivered a record");
          continue;
        }
        if (n != 1)
          R.violation("delivered-once", s.kind + (n ? ":duplicate" : ":missing"),
                      "mt " + e.m.desc + " [" + env.desc + ", " + std::to_string(nthreads) + " threads]: " + std::to_string(n) +
                          " deliveries");
        for (size_t i = 0; i < n; ++i)
          compare(e.m, *it->second[i], s, li, env, false);
        if (it != by_id.end())
          by_id.erase(it);
      }
    if (!by_id.empty())
      R.violation("delivered-once", s.kind + ":unknown-record", "mt [" + env.desc + "]: " + std::to_string(by_id.size()) +
                                                                     " exported record id(s) that no thread emitted");
  }
  for (unsigned t = 0; t < nthreads; ++t)
  {
    chash = vf::mix(chash, hashes[t]);
    for (auto &e : outs[t])
    {
      ++total;
      if (!env.loggers[e.logger].enabled)
        R.count("disabled_emits");
    }
  }
  main_tc.unwind();
  env.finish("mt");
  outs.clear();
  if (total)
    R.nontrivial(vf::mix(chash, vf::fnv1a(env.desc) ^ nthreads));
  if (R.want_sample(3))
    R.sample("mt case [" + env.desc + "]: " + std::to_string(nthreads) + " thread(s), " + std::to_string(total) + " emits");
}

// ==========================================================================================
// EventId without a name: the API builds a string_view from a null pointer.  Probed once per
// process in a forked child so that it costs one key, not one restart per case.
// ==========================================================================================
#ifndef OTEL_VERIF_SHIM
static bool probe_noname_event_id()
{
  fflush(nullptr);
  pid_t pid = fork();
  if (pid < 0)
    return true;
  if (pid == 0)
  {
    int fd = open("/dev/null", O_WRONLY);
    if (fd >= 0)
    {
      dup2(fd, 1);
      dup2(fd, 2);
    }
    auto sink = std::make_shared<Sink>();
    sink->kind = "simple";
    std::unique_ptr<sdklogs::LogRecordExporter> ex(new RecExporter(sink));
    sdklogs::LoggerProvider lp(
        std::unique_ptr<sdklogs::LogRecordProcessor>(new sdklogs::SimpleLogRecordProcessor(std::move(ex))));
    auto l = lp.GetLogger("probe", "probe");
    l->EmitLogRecord(logs_api::Severity::kInfo, logs_api::EventId{7});
    KvVec none;
    l->Info(static_cast<int64_t>(7), nostd::string_view("x"), common::KeyValueIterableView<KvVec>(none));
    _exit(0);  // survival only; the values are the workload's business
  }
  int st = 0;
  if (waitpid(pid, &st, 0) != pid)
    return true;
  return WIFEXITED(st) && WEXITSTATUS(st) == 0;
}
#endif

int main(int argc, char **argv)
{
  auto &R = vf::report();
  R.init("C13", argc, argv);
  opentelemetry::sdk::common::internal_log::GlobalLogHandler::SetLogHandler(
      nostd::shared_ptr<opentelemetry::sdk::common::internal_log::LogHandler>(new SilentLogHandler()));
  std::string mode = R.opt.sparam("mode", "seq");
  Kill kill        = R.opt.sparam("kill", "scribble") == "free" ? KILL_FREE : KILL_SCRIBBLE;
  g_strict_eventid_nul = R.opt.param("strict_eventid_nul", 0) != 0;
  uint64_t salt    = vf::fnv1a(mode + "/" + (kill == KILL_FREE ? "free" : "scribble"));
  bool allow_noname = false;
#ifndef OTEL_VERIF_SHIM
  if (mode == "seq")
  {
    allow_noname = probe_noname_event_id();
    if (!allow_noname)
      R.violation("event-id", "eventid-without-name:crash",
                  "EmitLogRecord(Severity::kInfo, EventId{7}) / Info(int64_t{7}, \"x\", attributes) on an enabled SDK "
                  "logger: the forked probe died — LogRecordSetterTrait<EventId>::Set builds "
                  "nostd::string_view{arg.name_.get()} from the null name_ of an EventId constructed without a name "
                  "(strlen(nullptr)); name-less event ids are left out of the workload of this process");
    R.count(allow_noname ? "eventid_noname_enabled" : "eventid_noname_disabled_after_probe");
  }
#endif
  R.run_cases([&](uint64_t i) {
    uint64_t seed = vf::mix(R.case_seed(i), salt);
    if (mode == "mt")
      mt_case(seed);
    else
    {
      SeqCase c;
      c.env.allow_noname = allow_noname;
      c.run(seed, kill);
    }
  });
  return R.finish();
}
