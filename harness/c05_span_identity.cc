// C05 — new spans get correct identity, parentage, flags and trace state.
//
// mode=model   (E1, asan)  one seeded tree program per case on the main thread: StartSpan with each of the
//                          three parenting mechanisms, WithActiveSpan/Scope nesting with out-of-order
//                          release, remote/invalid parents, kIsRootSpanKey contexts; a reference model of
//                          StartSpan predicts trace id / parent / flags / trace state; an instrumented
//                          sampler wrapper supplies (and records) the sampler's decision and inputs; a
//                          recording exporter behind a simple processor shows what is exported.
// mode=threads (E2, tsan)  the same program on 1..8 threads at once over ONE shared provider, each thread
//                          with its own model of its own active-span stack: nobody may observe another
//                          thread's active span, span ids are unique across threads, TSan stays silent.
// mode=fork    (E5, asan)  parent and child each draw N ids after fork(); a shared prefix / shared id is a
//                          violation (thread-local generator must be reseeded in the child).
#include <poll.h>
#include <signal.h>
#include <sys/types.h>
#include <sys/wait.h>
#include <thread>
#include <unordered_map>

#include "opentelemetry/context/context.h"
#include "opentelemetry/context/runtime_context.h"
#include "opentelemetry/sdk/common/global_log_handler.h"
#include "opentelemetry/sdk/resource/resource.h"
#include "opentelemetry/sdk/trace/exporter.h"
#include "opentelemetry/sdk/trace/id_generator.h"
#include "opentelemetry/sdk/trace/random_id_generator.h"
#include "opentelemetry/sdk/trace/sampler.h"
#include "opentelemetry/sdk/trace/samplers/always_off.h"
#include "opentelemetry/sdk/trace/samplers/always_on.h"
#include "opentelemetry/sdk/trace/samplers/parent.h"
#include "opentelemetry/sdk/trace/samplers/trace_id_ratio.h"
#include "opentelemetry/sdk/trace/simple_processor.h"
#include "opentelemetry/sdk/trace/span_data.h"
#include "opentelemetry/sdk/trace/tracer_provider.h"
#include "opentelemetry/trace/context.h"
#include "opentelemetry/trace/default_span.h"
#include "opentelemetry/trace/scope.h"
#include "opentelemetry/trace/span_context.h"
#include "opentelemetry/trace/span_startoptions.h"
#include "opentelemetry/trace/trace_flags.h"
#include "opentelemetry/trace/trace_state.h"
#include "opentelemetry/trace/tracer.h"

#include "vf_core.h"
#ifdef VF_SHIM_H
#  include "vf_runtime.h"
#endif

namespace trace_api = opentelemetry::trace;
namespace trace_sdk = opentelemetry::sdk::trace;
namespace context   = opentelemetry::context;
namespace nostd     = opentelemetry::nostd;
using vf::Rng;

namespace
{

// ------------------------------------------------------------------------------------------
// value copy of a SpanContext (what the model reasons about)
// ------------------------------------------------------------------------------------------
struct Cv
{
  uint8_t t[16] = {0};
  uint8_t s[8]  = {0};
  uint8_t flags = 0;
  bool remote   = false;
  bool ts_null  = false;
  std::string ts;  // trace state as a header

  static bool nz(const uint8_t *p, size_t n)
  {
    for (size_t i = 0; i < n; ++i)
      if (p[i])
        return true;
    return false;
  }
  bool trace_valid() const { return nz(t, 16); }
  bool span_valid() const { return nz(s, 8); }
  bool valid() const { return trace_valid() && span_valid(); }
  bool sampled() const { return flags & 1; }
  uint64_t sid() const
  {
    uint64_t v;
    memcpy(&v, s, 8);
    return v;
  }
  std::string tid() const { return std::string(reinterpret_cast<const char *>(t), 16); }
  bool same_trace(const Cv &o) const { return memcmp(t, o.t, 16) == 0; }
  bool same_span(const Cv &o) const { return memcmp(s, o.s, 8) == 0; }
  std::string str() const
  {
    char b[8];
    snprintf(b, sizeof b, "%02x", flags);
    return vf::hexs(t, 16) + "-" + vf::hexs(s, 8) + "-" + b + (remote ? "r" : "") + "[" + vf::show(ts, 60) + "]";
  }
};

Cv cv_of(const trace_api::SpanContext &c)
{
  Cv v;
  memcpy(v.t, c.trace_id().Id().data(), 16);
  memcpy(v.s, c.span_id().Id().data(), 8);
  v.flags  = c.trace_flags().flags();
  v.remote = c.IsRemote();
  if (c.trace_state())
    v.ts = c.trace_state()->ToHeader();
  else
    v.ts_null = true;
  return v;
}

uint64_t sid_of(const trace_api::SpanId &id)
{
  uint64_t v;
  memcpy(&v, id.Id().data(), 8);
  return v;
}

const char *decision_name(trace_sdk::Decision d)
{
  switch (d)
  {
    case trace_sdk::Decision::DROP:
      return "drop";
    case trace_sdk::Decision::RECORD_ONLY:
      return "record-only";
    default:
      return "sample";
  }
}

// ------------------------------------------------------------------------------------------
// instrumented samplers.  Everything the calling thread needs is thread-local, so one sampler
// object can be shared by all threads of a history without a harness-side race.
// ------------------------------------------------------------------------------------------
struct Script
{
  trace_sdk::Decision decision = trace_sdk::Decision::RECORD_AND_SAMPLE;
  int ts_mode                  = 0;  // 0 none, 1 explicit header, 2 empty but non-null, 3 parent's + one member
  std::string ts_header;
  bool attrs = false;
};
thread_local Script t_script;

struct SamplerCall
{
  int calls = 0;
  Cv parent;          // parent_context as handed to the sampler
  uint8_t trace[16] = {0};  // trace_id as handed to the sampler
  trace_sdk::Decision decision = trace_sdk::Decision::DROP;
  bool ts_given                = false;
  std::string ts_header;
};
thread_local SamplerCall t_call;

class ScriptedSampler final : public trace_sdk::Sampler
{
public:
  trace_sdk::SamplingResult ShouldSample(const trace_api::SpanContext &parent_context,
                                         trace_api::TraceId,
                                         nostd::string_view,
                                         trace_api::SpanKind,
                                         const opentelemetry::common::KeyValueIterable &,
                                         const trace_api::SpanContextKeyValueIterable &) noexcept override
  {
    const Script &s = t_script;
    trace_sdk::SamplingResult r{s.decision, nullptr, {}};
    if (s.ts_mode == 1)
      r.trace_state = trace_api::TraceState::FromHeader(s.ts_header);
    else if (s.ts_mode == 2)
      r.trace_state = trace_api::TraceState::GetDefault();
    else if (s.ts_mode == 3)
      r.trace_state = parent_context.trace_state() ? parent_context.trace_state()->Set("vfs", "1")
                                                   : trace_api::TraceState::FromHeader("vfs=1");
    if (s.attrs)
    {
      auto *m = new std::map<std::string, opentelemetry::common::AttributeValue>();
      (*m)["vf.sampler.n"] = static_cast<int64_t>(7);
      (*m)["vf.sampler.s"] = nostd::string_view("scripted");
      r.attributes.reset(m);
    }
    return r;
  }
  nostd::string_view GetDescription() const noexcept override { return "VfScripted"; }
};

// delegate wrapper: records what the sampler was given and what it answered
class SpySampler final : public trace_sdk::Sampler
{
public:
  explicit SpySampler(std::shared_ptr<trace_sdk::Sampler> inner) : inner_(std::move(inner)) {}
  trace_sdk::SamplingResult ShouldSample(const trace_api::SpanContext &parent_context,
                                         trace_api::TraceId trace_id,
                                         nostd::string_view name,
                                         trace_api::SpanKind kind,
                                         const opentelemetry::common::KeyValueIterable &attributes,
                                         const trace_api::SpanContextKeyValueIterable &links) noexcept override
  {
    SamplerCall &c = t_call;
    ++c.calls;
    c.parent = cv_of(parent_context);
    memcpy(c.trace, trace_id.Id().data(), 16);
    auto r     = inner_->ShouldSample(parent_context, trace_id, name, kind, attributes, links);
    c.decision = r.decision;
    c.ts_given = static_cast<bool>(r.trace_state);
    c.ts_header = c.ts_given ? r.trace_state->ToHeader() : std::string();
    return r;
  }
  nostd::string_view GetDescription() const noexcept override { return "VfSpy"; }

private:
  std::shared_ptr<trace_sdk::Sampler> inner_;
};

static const uint8_t kLinkTid[16] = {0xee, 1, 2, 3, 4, 5, 6, 7, 8, 9, 10, 11, 12, 13, 14, 15};
static const uint8_t kLinkSid[8]  = {0xee, 1, 2, 3, 4, 5, 6, 7};

// ------------------------------------------------------------------------------------------
// custom id generator: sequential, IsRandom() == false, unique and non-zero by construction
// ------------------------------------------------------------------------------------------
class SeqIdGenerator final : public trace_sdk::IdGenerator
{
public:
  explicit SeqIdGenerator(uint64_t salt) : trace_sdk::IdGenerator(false), salt_(salt) {}
  trace_api::SpanId GenerateSpanId() noexcept override
  {
    uint64_t v, x;
    uint8_t b[8];
    if (salt_ & 2)
    {
      // a plain counter: the id occupies one half only (at least four leading or trailing zero bytes);
      // distinct as long as fewer than 2^24 ids are drawn
      uint32_t c;
      do
      {
        x = salt_ + next_.fetch_add(1, std::memory_order_relaxed);
        c = static_cast<uint32_t>(x) & 0xffffffu;  // 24 bits: bytes 3 and 7 of the id stay zero
      } while (c == 0);
      memset(b, 0, 8);
      memcpy(b + ((salt_ & 4) ? 4 : 0), &c, 4);
      return trace_api::SpanId(b);
    }
    do
    {
      x = salt_ + next_.fetch_add(1, std::memory_order_relaxed);
      v = vf::splitmix64(x);  // a bijection of the counter: distinct and scattered
    } while (v == 0);
    memcpy(b, &v, 8);
    return trace_api::SpanId(b);
  }
  trace_api::TraceId GenerateTraceId() noexcept override
  {
    uint64_t n = next_.fetch_add(1, std::memory_order_relaxed) + 1;
    uint64_t x = salt_ ^ n;
    uint64_t h = vf::splitmix64(x);
    uint8_t b[16];
    memcpy(b, &h, 8);
    uint64_t lo = (salt_ << 20) + n;  // unique per draw, never zero
    if (lo == 0)
      lo = 1;
    memcpy(b + 8, &lo, 8);
    return trace_api::TraceId(b);
  }

private:
  uint64_t salt_;
  std::atomic<uint64_t> next_{1};
};

// ------------------------------------------------------------------------------------------
// recording exporter (simple processor in front of it)
// ------------------------------------------------------------------------------------------
struct Exported
{
  Cv ctx;          // SpanData::GetSpanContext()
  uint8_t par[8];  // SpanData::GetParentSpanId()
  uint8_t flags;   // SpanData::GetFlags()
  int times = 1;
};

struct Sink
{
  std::mutex mu;
  std::unordered_map<uint64_t, Exported> by_span;
  uint64_t total = 0;
  bool find(uint64_t sid, Exported &out)
  {
    std::lock_guard<std::mutex> g(mu);
    auto it = by_span.find(sid);
    if (it == by_span.end())
      return false;
    out = it->second;
    return true;
  }
};

class RecExporter final : public trace_sdk::SpanExporter
{
public:
  explicit RecExporter(std::shared_ptr<Sink> s) : sink_(std::move(s)) {}
  std::unique_ptr<trace_sdk::Recordable> MakeRecordable() noexcept override
  {
    return std::unique_ptr<trace_sdk::Recordable>(new trace_sdk::SpanData());
  }
  opentelemetry::sdk::common::ExportResult Export(
      const nostd::span<std::unique_ptr<trace_sdk::Recordable>> &spans) noexcept override
  {
    for (auto &rec : spans)
    {
      auto *d = static_cast<trace_sdk::SpanData *>(rec.get());
      if (!d)
        continue;
      Exported e;
      e.ctx = cv_of(d->GetSpanContext());
      memcpy(e.par, d->GetParentSpanId().Id().data(), 8);
      e.flags = d->GetFlags().flags();
      std::lock_guard<std::mutex> g(sink_->mu);
      ++sink_->total;
      auto ins = sink_->by_span.emplace(e.ctx.sid(), e);
      if (!ins.second)
        ++ins.first->second.times;
    }
    return opentelemetry::sdk::common::ExportResult::kSuccess;
  }
  bool ForceFlush(std::chrono::microseconds) noexcept override { return true; }
  bool Shutdown(std::chrono::microseconds) noexcept override { return true; }

private:
  std::shared_ptr<Sink> sink_;
};

class SilentLog final : public opentelemetry::sdk::common::internal_log::LogHandler
{
public:
  void Handle(opentelemetry::sdk::common::internal_log::LogLevel,
              const char *,
              int,
              const char *,
              const opentelemetry::sdk::common::AttributeMap &) noexcept override
  {
    n.fetch_add(1, std::memory_order_relaxed);
  }
  vf::raw_atomic<uint64_t> n{0};
};

// ------------------------------------------------------------------------------------------
// state shared by the threads of one history
// ------------------------------------------------------------------------------------------
struct Shared
{
  std::shared_ptr<Sink> sink = std::make_shared<Sink>();
  std::shared_ptr<trace_sdk::TracerProvider> provider;
  nostd::shared_ptr<trace_api::Tracer> tracer[2];
  bool idgen_random = true;
  std::string sampler_name;
  vf::raw_atomic<int> in_startspan{0};  // threads currently inside Tracer::StartSpan (evidence of real overlap)
  // every id in play, with the thread that brought it in (new span, or remote id made up by that thread)
  std::mutex mu;
  std::unordered_map<uint64_t, int> span_owner;
  std::unordered_map<std::string, int> trace_owner;
  std::unordered_map<uint64_t, int> node_owner;  // span ids of spans started by the harness
  std::set<uint64_t> collided;                   // span ids handed out twice: exporter lookups by id are meaningless
  bool is_collided(uint64_t sid)
  {
    std::lock_guard<std::mutex> g(mu);
    return collided.count(sid) != 0;
  }

  // returns -1 if new, else the previous owner
  int claim_span(uint64_t sid, int tid, bool node)
  {
    std::lock_guard<std::mutex> g(mu);
    auto ins = span_owner.emplace(sid, tid);
    if (node)
      node_owner.emplace(sid, tid);
    if (!ins.second && node)
      collided.insert(sid);
    return ins.second ? -1 : ins.first->second;
  }
  int claim_trace(const std::string &t, int tid)
  {
    std::lock_guard<std::mutex> g(mu);
    auto ins = trace_owner.emplace(t, tid);
    return ins.second ? -1 : ins.first->second;
  }
  int span_owner_of(uint64_t sid)
  {
    std::lock_guard<std::mutex> g(mu);
    auto it = span_owner.find(sid);
    return it == span_owner.end() ? -1 : it->second;
  }
  int trace_owner_of(const std::string &t)
  {
    std::lock_guard<std::mutex> g(mu);
    auto it = trace_owner.find(t);
    return it == trace_owner.end() ? -1 : it->second;
  }
};

// span ids the SDK's random generator produced in ALL cases of this process ("never seen before in the run"),
// bounded so a thorough shard stays within memory; beyond the bound ids are only compared within their case
struct RunIds
{
  std::mutex mu;
  std::unordered_set<uint64_t> ids;
  static constexpr size_t kMax = 3000000;
  // false if the id was already produced by an earlier case
  bool fresh(uint64_t sid, bool &tracked)
  {
    std::lock_guard<std::mutex> g(mu);
    tracked = ids.size() < kMax;
    if (!tracked)
      return ids.count(sid) == 0;
    return ids.insert(sid).second;
  }
};
RunIds g_run_ids;

// per-thread counters, flushed once (the Report mutex must not serialise the threads)
struct Ctr
{
  std::map<std::string, uint64_t> m;
  void operator()(const char *k, uint64_t n = 1) { m[k] += n; }
  void flush()
  {
    for (auto &kv : m)
      vf::report().count(kv.first, kv.second);
    m.clear();
  }
};

// ------------------------------------------------------------------------------------------
// the per-thread program + model
// ------------------------------------------------------------------------------------------
struct Node
{
  nostd::shared_ptr<trace_api::Span> span;
  Cv ctx;  // GetContext() observed when it was started
  trace_sdk::Decision decision;
  bool has_parent = false;
  uint8_t want_par[8];  // model's parent span id (zero if none)
  std::string mech;     // decisive mechanism of its start
  Cv cand_active, cand_explicit;  // the other candidate parents at the time (to classify a wrong parent)
  bool ended = false, export_checked = false;
  int depth = 1;
};

struct ScopeEnt
{
  int id;
  Cv cv;      // context of the span the scope made active (may be invalid)
  int depth;  // depth of that span in the tree (0 for remote/invalid)
};

struct Resolved
{
  bool has_parent = false;
  bool dontcare   = false;  // explicit Context with a valid span AND marked root: statement ambiguous
  Cv parent;
  int depth = 0;
  std::string mech;
};

struct Prog
{
  Shared &sh;
  int tid;
  Rng r;
  bool threads;
  Ctr C;
  std::vector<Node> nodes;
  std::vector<ScopeEnt> stack;  // model of this thread's runtime-context stack (span entries only)
  std::map<int, std::unique_ptr<trace_api::Scope>> scopes;
  int next_scope = 0;
  uint64_t chash        = 0;
  std::string text;
  uint64_t nstarts = 0, max_depth = 0, max_stack = 0;
  // deep mode (from seeded change C05-w6-1): scopes nest 15..60 deep before they unwind, across every growth (and
  // any shrinking) of the thread's context stack; new spans started on the way down must find the right active span
  int depth_limit = 6;
  bool deep       = false;
  // the active span as StartSpan's caller can observe it (== model top unless the active-span assertion fired)
  Cv cur_act;
  int cur_act_depth = 0;

  Prog(Shared &s, int t, uint64_t seed, bool th) : sh(s), tid(t), r(seed), threads(th) {}

  void note(const std::string &s)
  {
    if (text.size() < 420)
      text += s + " ";
  }

  // ---- generators -------------------------------------------------------------------------
  uint8_t any_flags()
  {
    static const uint8_t k[] = {0, 1, 2, 3, 0x80, 0xfe, 0xff, 0x05, 0x09};
    return r.chance(3, 5) ? k[r.below(sizeof k)] : static_cast<uint8_t>(r.below(256));
  }
  std::string any_tracestate()
  {
    if (r.chance(2, 5))
      return "";
    size_t n = static_cast<size_t>(r.range(1, 3));
    std::string h;
    for (size_t i = 0; i < n; ++i)
    {
      std::string k = std::string(1, static_cast<char>('a' + r.below(26))) + r.bytes(static_cast<size_t>(r.range(0, 4)), "abcxyz019_-") +
                      std::to_string(i);
      std::string v = r.bytes(static_cast<size_t>(r.range(1, 6)), "abcXYZ019:/.");
      h += (h.empty() ? "" : ",") + k + "=" + v;
    }
    return h;
  }
  // a context that did not come from this SDK: valid (remote parent) or invalid
  trace_api::SpanContext foreign_context(bool valid)
  {
    uint8_t t[16], s[8];
    for (auto &b : t)
      b = static_cast<uint8_t>(r.next());
    for (auto &b : s)
      b = static_cast<uint8_t>(r.next());
    t[0] |= 1;
    s[0] |= 1;
    if (r.chance(1, 3))
    {
      // sparse ids: a single non-zero byte, or only one half of the id used (short ids of other tracing
      // systems, counters) - valid all the same.  Byte 3 or byte 7 of a sparse span id is always non-zero, which
      // keeps these ids apart from the ones the counter generator below hands out (bytes 3 and 7 zero).
      C("foreign_contexts_sparse_ids");
      unsigned char tb = static_cast<unsigned char>(r.range(1, 255)), sb = static_cast<unsigned char>(r.range(1, 255));
      switch (r.below(3))
      {
        case 0:
          memset(t, 0, 16);
          memset(s, 0, 8);
          t[r.below(16)]        = tb;
          s[r.coin() ? 3 : 7] = sb;
          break;
        case 1:
          memset(t, 0, 8);
          memset(s, 0, 4);
          t[8 + r.below(8)] |= tb;
          s[7] |= sb;
          break;
        default:
          memset(t + 8, 0, 8);
          memset(s + 4, 0, 4);
          t[r.below(8)] |= tb;
          s[3] |= sb;
      }
    }
    if (!valid)
    {
      switch (r.below(3))
      {
        case 0:
          memset(t, 0, 16);
          break;
        case 1:
          memset(s, 0, 8);
          break;
        default:
          memset(t, 0, 16);
          memset(s, 0, 8);
      }
    }
    std::string h = any_tracestate();
    auto ts       = h.empty() ? trace_api::TraceState::GetDefault() : trace_api::TraceState::FromHeader(h);
    trace_api::SpanContext c(trace_api::TraceId(t), trace_api::SpanId(s), trace_api::TraceFlags(any_flags()),
                             r.chance(4, 5), ts);
    Cv v = cv_of(c);
    if (v.span_valid())
      sh.claim_span(v.sid(), tid, false);
    if (v.trace_valid())
      sh.claim_trace(v.tid(), tid);
    return c;
  }

  Cv active() const { return stack.empty() ? Cv() : stack.back().cv; }
  int active_depth() const { return stack.empty() ? 0 : stack.back().depth; }

  // ---- monitors ---------------------------------------------------------------------------
  void check_active(const char *when)
  {
    auto &R = vf::report();
    Cv got  = cv_of(trace_api::Tracer::GetCurrentSpan()->GetContext());
    Cv want = active();
    C("active_checks");
    if (got.same_trace(want) && got.same_span(want) && got.flags == want.flags)
      return;
    int owner = got.span_valid() ? sh.span_owner_of(got.sid()) : -1;
    std::string d = std::string(when) + ": GetCurrentSpan() = " + got.str() + " model top = " + want.str() +
                    " stack depth " + std::to_string(stack.size());
    if (owner >= 0 && owner != tid)
      R.violation("thread-isolation", "getcurrent-foreign-span",
                  d + " (span belongs to thread " + std::to_string(owner) + ", observer " + std::to_string(tid) + ")");
    else
      R.violation("active-span", when, d);
  }

  // which of the candidates an unexpected parent/trace corresponds to
  std::string label_span(const uint8_t *s, const Cv &want, const Cv &act, const Cv &expl)
  {
    if (!Cv::nz(s, 8))
      return "none";
    if (act.valid() && memcmp(s, act.s, 8) == 0 && !(want.valid() && want.same_span(act)))
      return "active";
    if (expl.valid() && memcmp(s, expl.s, 8) == 0 && !(want.valid() && want.same_span(expl)))
      return "explicit";
    uint64_t v;
    memcpy(&v, s, 8);
    int o = sh.span_owner_of(v);
    if (o >= 0 && o != tid)
      return "foreign-thread";
    return "other";
  }
  std::string label_trace(const Cv &got, const Cv &want, const Cv &act, const Cv &expl, bool fresh)
  {
    if (!got.trace_valid())
      return "zero";
    if (act.valid() && got.same_trace(act) && !(want.valid() && want.same_trace(act)))
      return "active";
    if (expl.valid() && got.same_trace(expl) && !(want.valid() && want.same_trace(expl)))
      return "explicit";
    if (fresh)
      return "new-trace";
    int o = sh.trace_owner_of(got.tid());
    if (o >= 0 && o != tid)
      return "foreign-thread";
    return "other";
  }

  void judge_parent_id(const uint8_t *got, const Resolved &w, const Cv &act, const Cv &expl, const char *where,
                       const std::string &detail)
  {
    auto &R = vf::report();
    uint8_t zero[8] = {0};
    const uint8_t *want = w.has_parent ? w.parent.s : zero;
    if (memcmp(got, want, 8) == 0)
      return;
    std::string lab = label_span(got, w.has_parent ? w.parent : Cv(), act, expl);
    std::string d   = detail + " | parent span id at " + where + " = " + vf::hexs(got, 8) + " want " + vf::hexs(want, 8);
    if (lab == "foreign-thread")
      R.violation("thread-isolation", std::string("foreign-parent@") + where, d);
    else if (lab == "other")
      R.violation("parent-span-id", w.mech + "@" + where, d);
    else
      R.violation("parent-precedence", w.mech + "-got-" + lab + "@" + where, d);
  }

  void check_exported(Node &n)
  {
    auto &R = vf::report();
    if (n.export_checked)
      return;
    if (sh.is_collided(n.ctx.sid()))
    {
      n.export_checked = true;  // already reported as span-id-fresh; one defect, one key
      return;
    }
    Exported e;
    if (!sh.sink->find(n.ctx.sid(), e))
    {
      C("recorded_ended_not_exported_notjudged");
      return;
    }
    n.export_checked = true;
    C("exported_checked");
    if (n.decision == trace_sdk::Decision::RECORD_ONLY)
      C("record_only_exported_dontcare");
    if (e.times > 1)
      C("exported_more_than_once_notjudged");
    std::string d = "span " + n.ctx.str() + " (" + n.mech + ", sampler " + decision_name(n.decision) + ") exported as " +
                    e.ctx.str() + " flags " + std::to_string(e.flags) + " parent " + vf::hexs(e.par, 8);
    if (!e.ctx.same_trace(n.ctx))
      R.violation("exported-matches-context", "trace-id", d);
    if (e.flags != n.ctx.flags || e.ctx.flags != n.ctx.flags)
      R.violation("exported-matches-context", "flags", d);
    if (e.ctx.ts != n.ctx.ts)
      R.violation("exported-matches-context", "trace-state", d);
    Resolved w;
    w.has_parent = n.has_parent;
    memcpy(w.parent.s, n.want_par, 8);
    w.parent.t[0] = 1;  // only the span id is compared
    w.mech        = n.mech;
    judge_parent_id(e.par, w, n.cand_active, n.cand_explicit, "exported", d);
  }

  // ---- operations -------------------------------------------------------------------------
  void open_scope(const nostd::shared_ptr<trace_api::Span> &span, const Cv &cv, int depth)
  {
    int id = next_scope++;
    nostd::shared_ptr<trace_api::Span> s = span;
    if (r.coin())
      scopes[id].reset(new trace_api::Scope(trace_api::Tracer::WithActiveSpan(s)));
    else
      scopes[id].reset(new trace_api::Scope(s));
    stack.push_back({id, cv, depth});
    if (stack.size() > max_stack)
      max_stack = stack.size();
    C("scope_open");
    chash = vf::mix(chash, 0x51 + static_cast<uint64_t>(depth));
    check_active("after-attach");
  }

  void release_scope(bool top)
  {
    if (scopes.empty())
      return;
    int id;
    if (top && !stack.empty())
      id = stack.back().id;
    else
    {
      auto it = scopes.begin();
      std::advance(it, static_cast<long>(r.below(scopes.size())));
      id = it->first;
    }
    // model: the token's context and everything attached above it is detached; a token that is no longer
    // on the stack (already swept by an outer release) changes nothing
    size_t pos = stack.size();
    for (size_t i = 0; i < stack.size(); ++i)
      if (stack[i].id == id)
        pos = i;
    bool ooo = pos + 1 < stack.size() || pos == stack.size();
    if (pos < stack.size())
      stack.resize(pos);
    scopes.erase(id);  // ~Scope -> ~Token -> Detach
    C("scope_release");
    if (ooo)
      C("out_of_order_scope_release");
    note(ooo ? "release!" : "release");
    chash = vf::mix(chash, ooo ? 0x62 : 0x61);
    check_active(ooo ? "after-out-of-order-release" : "after-in-order-release");
  }

  void end_node()
  {
    std::vector<size_t> live;
    for (size_t i = 0; i < nodes.size(); ++i)
      if (!nodes[i].ended)
        live.push_back(i);
    if (live.empty())
      return;
    Node &n = nodes[r.pick(live)];
    n.span->End();
    n.ended = true;
    chash   = vf::mix(chash, 0x71);
    note("end");
    if (n.decision != trace_sdk::Decision::DROP)
      check_exported(n);
  }

  // choose the parent options of one StartSpan and resolve them in the model
  struct Opt
  {
    trace_api::StartSpanOptions o;
    Resolved want;
    Cv expl;  // explicit candidate (valid or not)
    std::string desc;
  };

  void build_options(Opt &op)
  {
    Cv act        = cur_act;
    unsigned kind = static_cast<unsigned>(r.below(100));
    std::vector<size_t> usable;
    for (size_t i = 0; i < nodes.size(); ++i)
      if (nodes[i].depth < depth_limit)
        usable.push_back(i);
    Resolved &w = op.want;
    auto fall_to_active = [&](const char *why) {
      if (act.valid())
      {
        w.has_parent = true;
        w.parent     = act;
        w.depth      = cur_act_depth;
        w.mech       = std::string("active:") + why;
      }
      else
        w.mech = std::string("none:") + why;
    };
    if (kind < 30)
    {
      // ---- nothing explicit (the variant holds the default invalid SpanContext)
      op.desc = "default";
      fall_to_active("default");
    }
    else if (kind < 62)
    {
      // ---- explicit SpanContext
      unsigned c = static_cast<unsigned>(r.below(100));
      int depth  = 0;
      if (c < 40 && !usable.empty())
      {
        Node &p     = nodes[r.pick(usable)];
        op.o.parent = p.span->GetContext();
        depth       = p.depth;
        op.desc     = "sc:local";
      }
      else if (c < 80)
      {
        op.o.parent = foreign_context(true);
        op.desc     = "sc:remote";
      }
      else
      {
        op.o.parent = foreign_context(false);
        op.desc     = "sc:invalid";
      }
      op.expl = cv_of(nostd::get<trace_api::SpanContext>(op.o.parent));
      if (op.expl.valid())
      {
        w.has_parent = true;
        w.parent     = op.expl;
        w.depth      = depth;
        w.mech       = "spancontext";
      }
      else
        fall_to_active("invalid-spancontext");
    }
    else
    {
      // ---- explicit Context, built by layering SetValue (latest value of a key wins)
      context::Context ctx;
      bool has_span = false, root = false;
      Cv span_cv;
      int depth  = 0;
      unsigned c = static_cast<unsigned>(r.below(100));
      op.desc    = "ctx:";
      if (c < 10)
      {
        ctx      = context::RuntimeContext::GetCurrent();  // carries this thread's active span, if any
        has_span = !stack.empty() || act.valid();
        span_cv  = act;
        depth    = cur_act_depth;
        op.desc += "current";
      }
      if (r.chance(1, 6))
        ctx = ctx.SetValue("vf.unrelated", static_cast<int64_t>(r.below(100)));
      if (c >= 10 && c < 20)
        op.desc += "empty";
      else if (c >= 20 && c < 50 && !usable.empty())
      {
        Node &p  = nodes[r.pick(usable)];
        ctx      = r.coin() ? trace_api::SetSpan(ctx, p.span) : ctx.SetValue(trace_api::kSpanKey, p.span);
        has_span = true;
        span_cv  = p.ctx;
        depth    = p.depth;
        op.desc += "local";
      }
      else if (c >= 20 && c < 80)
      {
        trace_api::SpanContext sc = foreign_context(true);
        nostd::shared_ptr<trace_api::Span> ds(new trace_api::DefaultSpan(sc));
        ctx      = trace_api::SetSpan(ctx, ds);
        has_span = true;
        span_cv  = cv_of(sc);
        depth    = 0;
        op.desc += "remote";
      }
      else if (c >= 80)
      {
        trace_api::SpanContext sc = r.coin() ? foreign_context(false) : trace_api::SpanContext::GetInvalid();
        nostd::shared_ptr<trace_api::Span> ds(new trace_api::DefaultSpan(sc));
        ctx      = trace_api::SetSpan(ctx, ds);
        has_span = true;
        span_cv  = cv_of(sc);
        depth    = 0;
        op.desc += "invalid";
      }
      // root mark
      bool span_ok = has_span && span_cv.valid();
      unsigned rm  = static_cast<unsigned>(r.below(100));
      if (span_ok ? rm < 4 : rm < 45)
      {
        ctx  = ctx.SetValue(trace_api::kIsRootSpanKey, true);
        root = true;
        op.desc += "+root";
      }
      else if (rm >= 90)
      {
        ctx = ctx.SetValue(trace_api::kIsRootSpanKey, false);
        op.desc += "+root=false";
      }
      if (r.chance(1, 8))
        ctx = ctx.SetValue("vf.unrelated2", true);
      op.o.parent = ctx;
      op.expl     = has_span ? span_cv : Cv();
      if (span_ok)
      {
        w.has_parent = true;
        w.parent     = span_cv;
        w.depth      = depth;
        w.mech       = "context-span";
        w.dontcare   = root;
      }
      else if (root)
        w.mech = "context-root";
      else
        fall_to_active("context-no-span");
    }
    static const trace_api::SpanKind kinds[] = {trace_api::SpanKind::kInternal, trace_api::SpanKind::kServer,
                                                trace_api::SpanKind::kClient};
    op.o.kind = r.pick(kinds);
  }

  void start_span()
  {
    auto &R = vf::report();
    // The active span is an input of StartSpan.  It is checked against the per-thread stack model by its own
    // assertion; the start itself is judged against what the caller can observe, so a broken runtime stack
    // does not cascade into every identity assertion.
    cur_act       = cv_of(trace_api::Tracer::GetCurrentSpan()->GetContext());
    cur_act_depth = active_depth();
    {
      Cv m = active();
      if (!(cur_act.same_trace(m) && cur_act.same_span(m) && cur_act.flags == m.flags))
      {
        check_active("before-start");
        cur_act_depth = 0;
      }
    }
    Opt op;
    build_options(op);
    Resolved w = op.want;
    Cv act     = cur_act;
    Cv expl    = op.expl;

    // script for the scripted sampler (ignored by the built-ins)
    Script &sc = t_script;
    static const trace_sdk::Decision ds[] = {trace_sdk::Decision::DROP, trace_sdk::Decision::RECORD_ONLY,
                                             trace_sdk::Decision::RECORD_AND_SAMPLE, trace_sdk::Decision::RECORD_AND_SAMPLE};
    sc.decision = r.pick(ds);
    sc.ts_mode  = r.chance(1, 2) ? 0 : static_cast<int>(r.range(1, 3));
    sc.ts_header = sc.ts_mode == 1 ? any_tracestate() : "";
    if (sc.ts_mode == 1 && sc.ts_header.empty())
      sc.ts_header = "vf=1";
    sc.attrs = r.chance(1, 4);

    t_call       = SamplerCall();
    std::string name = "s" + std::to_string(nodes.size()) + r.bytes(static_cast<size_t>(r.range(0, 6)), "abc.-_/");
    vf::Buf nb(name);
    auto &tracer = sh.tracer[r.chance(1, 5) ? 1 : 0];
    nostd::shared_ptr<trace_api::Span> span;
    int others = sh.in_startspan.fetch_add(1, std::memory_order_relaxed);
    // every public StartSpan overload carries the options (parent, kind, start times) through to the SDK
    {
      nostd::string_view nm(nb.data(), nb.size());
      std::map<std::string, int64_t> cattrs{{"vf.k", 1}};
      trace_api::SpanContext lctx(trace_api::TraceId(kLinkTid), trace_api::SpanId(kLinkSid), trace_api::TraceFlags(1), true);
      std::vector<std::pair<trace_api::SpanContext, std::map<std::string, std::string>>> clinks{{lctx, {{"l", "1"}}}};
      unsigned ov = r.chance(1, 2) ? 0 : static_cast<unsigned>(r.range(1, 6));
      switch (ov)
      {
        case 0:
          span = tracer->StartSpan(nm, op.o);
          break;
        case 1:
          span = tracer->StartSpan(nm, {{"vf.k", static_cast<int64_t>(1)}}, op.o);
          break;
        case 2:
          span = tracer->StartSpan(nm, cattrs, op.o);
          break;
        case 3:
        {
          opentelemetry::common::KeyValueIterableView<std::map<std::string, int64_t>> view(cattrs);
          span = tracer->StartSpan(nm, static_cast<const opentelemetry::common::KeyValueIterable &>(view), op.o);
          break;
        }
        case 4:
          span = tracer->StartSpan(nm, cattrs, clinks, op.o);
          break;
        case 5:
          span = tracer->StartSpan(nm, cattrs, {{lctx, {{"l", "1"}}}}, op.o);
          break;
        default:  // (brace attributes + a links container is not callable: that overload constrains the wrong type)
          span = tracer->StartSpan(nm, {{"vf.k", static_cast<int64_t>(1)}}, {{lctx, {{"l", "1"}}}}, op.o);
      }
      if (ov >= 2)
        C("starts_through_container_or_link_overloads");
    }
    others = std::max(others, sh.in_startspan.fetch_sub(1, std::memory_order_relaxed) - 1);
    if (others > 0)
      C("starts_overlapping_another_thread");
    r.coin() ? nb.scribble() : nb.release();
    SamplerCall call = t_call;
    ++nstarts;
    C("starts");
    if (threads)
      C("thread_starts");

    if (!span)
    {
      R.violation("span-returned", "null", "StartSpan returned a null pointer; options " + op.desc);
      return;
    }
    Cv got = cv_of(span->GetContext());
    std::string detail = "options " + op.desc + " explicit " + expl.str() + " active " + act.str() + " sampler " +
                         sh.sampler_name + " -> new context " + got.str();

    // --- the ambiguous class: explicit Context with a valid span that is also marked root
    if (w.dontcare)
    {
      C("ctx_span_and_root_dontcare");
      if (!got.same_trace(w.parent))
      {
        w.has_parent = false;  // the implementation chose "root"; judge the rest on that reading
        w.parent     = Cv();
        w.depth      = 0;
      }
      w.mech = "context-span+root";
    }

    // --- every span, recorded or not, exposes a valid context; without one nothing else can be judged
    if (!got.valid())
    {
      trace_sdk::Decision dec = call.calls ? call.decision : trace_sdk::Decision::DROP;
      R.violation("context-valid",
                  std::string(decision_name(dec)) + (got.trace_valid() ? ":zero-span-id" : got.span_valid() ? ":zero-trace-id" : ":zero-ids"),
                  detail + " | sampler decided " + decision_name(dec));
      C("starts_with_invalid_context");
      Node n;
      n.span           = span;
      n.ctx            = got;
      n.decision       = dec;
      n.mech           = w.mech;
      n.export_checked = true;
      nodes.push_back(n);
      return;
    }

    // --- span id: never seen before (anywhere in this history, any thread)
    bool sid_ok = true;
    {
      int prev = sh.claim_span(got.sid(), tid, true);
      if (prev >= 0)
      {
        sid_ok = false;
        std::string cls = w.has_parent && got.same_span(w.parent) ? "equals-parent"
                          : prev != tid                            ? "repeated-across-threads"
                                                                   : "repeated";
        R.violation("span-id-fresh", cls, detail + " (id first seen on thread " + std::to_string(prev) + ")");
      }
      else if (sh.idgen_random)
      {
        bool tracked = false;
        if (!g_run_ids.fresh(got.sid(), tracked))
        {
          sid_ok = false;
          R.violation("span-id-fresh", "repeated-across-cases", detail + " (id was produced in an earlier case of this process)");
        }
        if (tracked)
          C("span_ids_tracked_run_wide");
      }
    }

    // --- trace id
    bool trace_known = got.trace_valid() && sh.trace_owner_of(got.tid()) >= 0;
    if (w.has_parent)
    {
      if (!got.same_trace(w.parent))
      {
        std::string lab = label_trace(got, w.parent, act, expl, !trace_known);
        if (lab == "foreign-thread")
          R.violation("thread-isolation", "foreign-trace", detail + " want trace of " + w.parent.str());
        else if (lab == "other" || lab == "zero")
          R.violation("trace-id-from-parent", w.mech + "-got-" + lab, detail + " want trace of " + w.parent.str());
        else
          R.violation("parent-precedence", w.mech + "-got-" + lab + "@trace-id", detail + " want trace of " + w.parent.str());
      }
    }
    else
    {
      if (!got.trace_valid() || trace_known)
      {
        std::string lab = label_trace(got, Cv(), act, expl, false);
        if (lab == "foreign-thread")
          R.violation("thread-isolation", "foreign-trace", detail + " want a new trace");
        else if (lab == "other" || lab == "zero")
          R.violation("new-trace-fresh", w.mech + "-got-" + (lab == "other" ? "seen-trace-id" : lab), detail);
        else
          R.violation("parent-precedence", w.mech + "-got-" + lab + "@trace-id", detail + " want a new trace");
      }
    }
    if (got.trace_valid())
      sh.claim_trace(got.tid(), tid);

    // --- what the sampler was given
    trace_sdk::Decision decision = call.decision;
    if (call.calls == 0)
    {
      R.violation("sampler-consulted", "not-called", detail);
      decision = (got.flags & 1) ? trace_sdk::Decision::RECORD_AND_SAMPLE : trace_sdk::Decision::DROP;
    }
    else
    {
      if (call.calls > 1)
        C("sampler_called_more_than_once_notjudged");
      std::string sd = detail + " | sampler got parent " + call.parent.str() + " trace " + vf::hexs(call.trace, 16);
      if (w.has_parent)
      {
        if (!call.parent.same_span(w.parent))
          judge_parent_id(call.parent.s, w, act, expl, "sampler-input", sd);
        else if (!call.parent.same_trace(w.parent) || call.parent.flags != w.parent.flags || call.parent.ts != w.parent.ts)
          R.violation("sampler-input", "parent-context-fields:" + w.mech, sd + " want " + w.parent.str());
      }
      else if (call.parent.valid())
        judge_parent_id(call.parent.s, w, act, expl, "sampler-input", sd);
      if (memcmp(call.trace, got.t, 16) != 0)
        R.violation("sampler-input", "trace-id:" + w.mech, sd);
    }

    // --- flags
    const char *pcls = !w.has_parent ? "no-parent" : (w.parent.sampled() ? "parent-sampled" : "parent-unsampled");
    std::string fcls = std::string(pcls) + "-sampler-" + decision_name(decision);
    bool want_sampled = decision == trace_sdk::Decision::RECORD_AND_SAMPLE;
    if (got.sampled() != want_sampled)
      R.violation("sampled-eq-decision", fcls, detail + " | sampler decided " + decision_name(decision));
    if (got.flags & ~trace_api::TraceFlags::kIsSampled)
    {
      std::string cls = (w.has_parent && (w.parent.flags & got.flags & 0xfe)) ? "parent-extra-bits"
                        : (!w.has_parent && sh.idgen_random)                   ? "root-random-idgen"
                                                                               : "other";
      R.violation("flags-level1-only", cls, detail);
    }

    // --- trace state: the sampler's if it gave one, else the parent's
    if (got.ts_null)
      R.violation("trace-state-source", "null", detail);
    else if (call.calls && call.ts_given)
    {
      if (got.ts != call.ts_header)
        R.violation("trace-state-source", call.ts_header.empty() ? "sampler-gave-empty" : "sampler-gave",
                    detail + " | sampler gave [" + vf::show(call.ts_header, 80) + "]");
    }
    else if (w.has_parent)
    {
      if (got.ts != w.parent.ts)
        R.violation("trace-state-source", "sampler-none-parent", detail + " | want the parent's");
    }
    else if (!got.ts.empty())
      R.violation("trace-state-source", "sampler-none-no-parent", detail + " | nothing to take a trace state from");

    // --- coverage
    if (w.mech == "spancontext")
      C("decisive_spancontext");
    else if (w.mech == "context-span")
      C("decisive_context");
    else if (w.mech == "context-root")
      C("decisive_context_root");
    else if (w.mech.compare(0, 7, "active:") == 0)
      C("decisive_active");
    else if (w.mech.compare(0, 5, "none:") == 0)
      C("decisive_none");
    if ((w.mech == "spancontext" || w.mech == "context-span") && act.valid() && !act.same_span(w.parent))
    {
      C("decisive_explicit_over_active");
      C(act.same_trace(w.parent) ? "explicit_over_active_same_trace" : "explicit_over_active_other_trace");
    }
    if (w.mech == "context-root" && act.valid())
      C("root_mark_over_active");
    if (w.mech == "active:invalid-spancontext" || w.mech == "active:context-no-span")
      C("invalid_explicit_falls_to_active");
    if (w.has_parent && w.parent.sampled() && !want_sampled)
      C("sampler_drop_under_sampled_parent");
    if (w.has_parent && !w.parent.sampled() && want_sampled)
      C("sampler_sample_under_unsampled_parent");
    if (w.has_parent && (w.parent.flags & 0xfe))
      C("parent_with_extra_flag_bits");
    if (call.calls && call.ts_given)
    {
      C("sampler_trace_state_given");
      if (w.has_parent && call.ts_header != w.parent.ts)
        C("sampler_trace_state_differs_from_parent");
    }
    else if (w.has_parent && !w.parent.ts.empty())
      C("parent_trace_state_inherited");
    if (decision == trace_sdk::Decision::DROP)
      C("nonrecording_spans");
    else if (decision == trace_sdk::Decision::RECORD_ONLY)
      C("record_only_spans");
    else
      C("sampled_spans");

    chash = vf::mix(chash, vf::fnv1a(op.desc + w.mech + fcls) ^ (call.ts_given ? 0x100 : 0) ^ w.parent.flags);
    note("start(" + op.desc + ")->" + w.mech + "," + decision_name(decision));

    // --- remember the node; continue from the model
    Node n;
    n.span       = span;
    n.ctx        = got;
    n.decision   = decision;
    n.has_parent = w.has_parent;
    memset(n.want_par, 0, 8);
    if (w.has_parent)
      memcpy(n.want_par, w.parent.s, 8);
    n.mech          = w.mech;
    n.cand_active   = act;
    n.cand_explicit = expl;
    n.depth         = w.has_parent ? w.depth + 1 : 1;
    bool track      = sid_ok;  // a span whose id collides cannot be looked up at the exporter
    if (!track)
      n.export_checked = true;
    nodes.push_back(n);
    if (static_cast<uint64_t>(n.depth) > max_depth)
      max_depth = static_cast<uint64_t>(n.depth);

    // often make it the active span
    if (n.depth < depth_limit && (deep ? r.chance(9, 10) : r.chance(1, 2)))
    {
      note("activate");
      open_scope(span, got, n.depth);
    }
  }

  void run(size_t nops)
  {
    check_active("at-start");
    for (size_t i = 0; i < nops; ++i)
    {
      unsigned k = static_cast<unsigned>(r.below(100));
      if (k < 52)
        start_span();
      else if (k < 60)
      {
        // make an older span / a remote context / an invalid span active
        unsigned c = static_cast<unsigned>(r.below(10));
        std::vector<size_t> usable;
        for (size_t j = 0; j < nodes.size(); ++j)
          if (nodes[j].depth < depth_limit)
            usable.push_back(j);
        if (c < 5 && !usable.empty())
        {
          Node &n = nodes[r.pick(usable)];
          note("activate-old");
          open_scope(n.span, n.ctx, n.depth);
        }
        else if (c < 8)
        {
          trace_api::SpanContext scx = foreign_context(true);
          nostd::shared_ptr<trace_api::Span> dsp(new trace_api::DefaultSpan(scx));
          note("activate-remote");
          open_scope(dsp, cv_of(scx), 0);
        }
        else
        {
          trace_api::SpanContext scx = foreign_context(false);
          nostd::shared_ptr<trace_api::Span> dsp(new trace_api::DefaultSpan(scx));
          note("activate-invalid");
          open_scope(dsp, cv_of(scx), 0);
        }
      }
      else if (k < 80)
        release_scope(r.chance(7, 10));
      else if (k < 95)
        end_node();
      else
        check_active("spot-check");
    }
    // unwind: release every scope (random order), end or drop every span
    while (!scopes.empty())
      release_scope(r.chance(1, 2));
    check_active("after-unwind");
    for (auto &n : nodes)
    {
      if (!n.ended && r.chance(2, 3))
      {
        n.span->End();
        n.ended = true;
      }
      n.span = nostd::shared_ptr<trace_api::Span>();  // last reference: an un-ended span ends itself here
      n.ended = true;
    }
    auto &R = vf::report();
    for (auto &n : nodes)
    {
      if (n.decision != trace_sdk::Decision::DROP)
      {
        check_exported(n);
        continue;
      }
      if (n.export_checked || sh.is_collided(n.ctx.sid()))
        continue;
      Exported e;
      C("dropped_spans_checked");
      if (sh.sink->find(n.ctx.sid(), e))
        R.violation("dropped-not-exported", n.has_parent ? "with-parent" : "root",
                    "span " + n.ctx.str() + " (" + n.mech + ") was dropped by the sampler but reached the exporter as " +
                        e.ctx.str());
    }
    R.maxi("max_depth", max_depth);
    R.maxi("max_open_scopes", max_stack);
    if (max_stack >= 15)
      R.count("cases_with_15_or_more_nested_scopes");
    if (max_stack >= 31)
      R.count("cases_with_31_or_more_nested_scopes");
    R.maxi("max_spans_per_tree", nodes.size());
    C.flush();
  }
};

// ------------------------------------------------------------------------------------------
// one history
// ------------------------------------------------------------------------------------------
void setup_provider(Shared &sh, Rng &r, uint64_t seed)
{
  std::shared_ptr<trace_sdk::Sampler> inner;
  auto scripted = std::make_shared<ScriptedSampler>();
  unsigned k    = static_cast<unsigned>(r.below(100));
  static const double ratios[] = {0.0, 1.0, 0.5, 0.25, 0.9, 1e-9, 0.999999};
  double ratio  = r.chance(2, 3) ? r.pick(ratios) : r.unit();
  if (k < 36)
  {
    inner           = scripted;
    sh.sampler_name = "Scripted";
  }
  else if (k < 46)
  {
    inner           = std::make_shared<trace_sdk::ParentBasedSampler>(scripted);
    sh.sampler_name = "ParentBased(Scripted)";
  }
  else if (k < 56)
  {
    inner           = std::make_shared<trace_sdk::AlwaysOnSampler>();
    sh.sampler_name = "AlwaysOn";
  }
  else if (k < 67)
  {
    inner           = std::make_shared<trace_sdk::AlwaysOffSampler>();
    sh.sampler_name = "AlwaysOff";
  }
  else if (k < 74)
  {
    inner           = std::make_shared<trace_sdk::ParentBasedSampler>(std::make_shared<trace_sdk::AlwaysOnSampler>());
    sh.sampler_name = "ParentBased(AlwaysOn)";
  }
  else if (k < 80)
  {
    inner           = std::make_shared<trace_sdk::ParentBasedSampler>(std::make_shared<trace_sdk::AlwaysOffSampler>());
    sh.sampler_name = "ParentBased(AlwaysOff)";
  }
  else if (k < 93)
  {
    inner           = std::make_shared<trace_sdk::TraceIdRatioBasedSampler>(ratio);
    sh.sampler_name = "TraceIdRatioBased(" + std::to_string(ratio) + ")";
  }
  else
  {
    inner = std::make_shared<trace_sdk::ParentBasedSampler>(std::make_shared<trace_sdk::TraceIdRatioBasedSampler>(ratio));
    sh.sampler_name = "ParentBased(TraceIdRatioBased(" + std::to_string(ratio) + "))";
  }
  sh.idgen_random = r.chance(3, 5);
  std::unique_ptr<trace_sdk::IdGenerator> gen;
  if (sh.idgen_random)
    gen.reset(new trace_sdk::RandomIdGenerator());
  else
    gen.reset(new SeqIdGenerator(seed | 1));
  vf::report().count(sh.idgen_random ? "cases_random_idgen" : "cases_sequential_idgen");
  vf::report().count("cases_sampler_" + sh.sampler_name.substr(0, sh.sampler_name.find_first_of("0123456789")));
  std::unique_ptr<trace_sdk::SpanProcessor> proc(
      new trace_sdk::SimpleSpanProcessor(std::unique_ptr<trace_sdk::SpanExporter>(new RecExporter(sh.sink))));
  sh.provider = std::make_shared<trace_sdk::TracerProvider>(
      std::move(proc), opentelemetry::sdk::resource::Resource::Create({}),
      std::unique_ptr<trace_sdk::Sampler>(new SpySampler(inner)), std::move(gen));
  sh.tracer[0] = sh.provider->GetTracer("vf-c05", "1.0");
  sh.tracer[1] = sh.provider->GetTracer("vf-c05-b");
}

// every exported span must be one the harness started and the sampler did not drop
void final_sink_check(Shared &sh)
{
  auto &R = vf::report();
  std::lock_guard<std::mutex> g(sh.sink->mu);
  std::lock_guard<std::mutex> g2(sh.mu);
  for (auto &kv : sh.sink->by_span)
    if (!sh.node_owner.count(kv.first))
      R.violation("exported-unknown-span", "-", "exporter received " + kv.second.ctx.str() + " which no StartSpan returned");
  R.count("exported_total", sh.sink->total);
}

void model_case(uint64_t seed, size_t max_ops)
{
  auto &R = vf::report();
  Rng r(seed);
  Shared sh;
  setup_provider(sh, r, seed);
  Prog p(sh, 0, vf::mix(seed, 77), false);
  size_t nops = static_cast<size_t>(r.range(8, static_cast<int64_t>(max_ops)));
  if (vf::mix(seed, 0xdee9) % 8 == 0)
  {
    p.deep        = true;
    p.depth_limit = 64;
    nops          = static_cast<size_t>(60 + vf::mix(seed, 0xdeea) % 120);
    R.count("deep_nesting_cases");
  }
  p.run(nops);
  sh.tracer[0] = sh.tracer[1] = nostd::shared_ptr<trace_api::Tracer>();
  sh.provider.reset();
  final_sink_check(sh);
  if (p.nstarts)
    R.nontrivial(p.chash);
  if (R.want_sample(6) && p.nstarts > 3)
    R.sample("sampler " + sh.sampler_name + (sh.idgen_random ? ", random ids: " : ", sequential ids: ") + p.text);
}

void threads_case(uint64_t seed, size_t max_ops, unsigned max_threads)
{
  auto &R = vf::report();
  Rng r(seed);
  Shared sh;
  setup_provider(sh, r, seed);
  unsigned nt = static_cast<unsigned>(r.range(1, max_threads));
  if (r.chance(1, 3))
    nt = max_threads;
  size_t nops = static_cast<size_t>(r.range(8, static_cast<int64_t>(max_ops)));
#ifdef VF_SHIM_H
  vf_configure(seed, 30000, 5000, 0, 0, 200);
#endif
  vf::raw_atomic<unsigned> ready{0};
  vf::raw_atomic<bool> go{false};
  std::vector<std::thread> ths;
  std::vector<std::unique_ptr<Prog>> progs;
  for (unsigned t = 0; t < nt; ++t)
    progs.emplace_back(new Prog(sh, static_cast<int>(t), vf::mix(seed, 1000 + t), true));
  for (unsigned t = 0; t < nt; ++t)
    ths.emplace_back([&, t]() {
      ready.fetch_add(1);
      while (!go.load())
        std::this_thread::yield();
      progs[t]->run(nops);
    });
  while (ready.load() < nt)
    std::this_thread::yield();
  go.store(true);
  for (auto &t : ths)
    t.join();
#ifdef VF_SHIM_H
  vf_configure(0, 0, 0, 0, 0, 0);
#endif
  sh.tracer[0] = sh.tracer[1] = nostd::shared_ptr<trace_api::Tracer>();
  sh.provider.reset();
  final_sink_check(sh);
  R.count("thread_cases");
  R.count("threads_total", nt);
  if (nt >= 2)
    R.count("thread_cases_ge2");
  R.maxi("max_threads", nt);
  uint64_t h = nt;
  for (auto &p : progs)
    h = vf::mix(h, p->chash);
  R.signature(h);
  R.nontrivial(h);
  if (R.want_sample(3) && nt >= 2)
    R.sample(std::to_string(nt) + " threads, sampler " + sh.sampler_name + (sh.idgen_random ? ", random ids" : ", sequential ids") +
             "; thread 0: " + progs[0]->text);
}

// ------------------------------------------------------------------------------------------
// fork clause
// ------------------------------------------------------------------------------------------
struct Draw
{
  uint64_t v[2];
  bool operator<(const Draw &o) const { return v[0] != o.v[0] ? v[0] < o.v[0] : v[1] < o.v[1]; }
  bool operator==(const Draw &o) const { return v[0] == o.v[0] && v[1] == o.v[1]; }
};

// draw n ids without allocating: alternately span ids and trace ids from the SDK's random generator
void draw_ids(trace_sdk::RandomIdGenerator &g, Draw *out, size_t n)
{
  for (size_t i = 0; i < n; ++i)
  {
    out[i].v[0] = out[i].v[1] = 0;
    if (i & 1)
    {
      auto t = g.GenerateTraceId();
      memcpy(out[i].v, t.Id().data(), 16);
    }
    else
    {
      auto s = g.GenerateSpanId();
      memcpy(out[i].v, s.Id().data(), 8);
    }
  }
}

bool write_all(int fd, const void *p, size_t n)
{
  const char *c = static_cast<const char *>(p);
  while (n)
  {
    ssize_t w = write(fd, c, n);
    if (w <= 0)
      return false;
    c += w;
    n -= static_cast<size_t>(w);
  }
  return true;
}
// a child that never answers (e.g. stuck in an atfork handler) must not hang the shard: that is counted as a
// harness-level failure of the case, never as a verdict
bool read_all(int fd, void *p, size_t n)
{
  char *c = static_cast<char *>(p);
  while (n)
  {
    struct pollfd pf = {fd, POLLIN, 0};
    if (poll(&pf, 1, 30000) <= 0)
      return false;
    ssize_t w = read(fd, c, n);
    if (w <= 0)
      return false;
    c += w;
    n -= static_cast<size_t>(w);
  }
  return true;
}

constexpr size_t kMaxForkIds = 4096;

// runs on the forking thread.  Returns false on a harness-level failure (pipe/fork).
bool fork_body(size_t n, bool nested, bool via_tracer, nostd::shared_ptr<trace_api::Tracer> tracer, std::vector<Draw> &parent,
               std::vector<Draw> &child, std::vector<Draw> &grandchild)
{
  trace_sdk::RandomIdGenerator g;
  static Draw cbuf[kMaxForkIds], gbuf[kMaxForkIds];  // written only in the children (their own copies)
  int p1[2];
  if (pipe(p1) != 0)
    return false;
  fflush(nullptr);
  pid_t pid = fork();
  if (pid < 0)
    return false;
  if (pid == 0)
  {
    // ---- child: draw, report, _exit (no atexit handlers, no leak check)
    close(p1[0]);
    uint32_t have_g = 0;
    if (nested)
    {
      int p2[2];
      if (pipe(p2) != 0)
        _exit(3);
      pid_t gp = fork();
      if (gp < 0)
        _exit(3);
      if (gp == 0)
      {
        close(p2[0]);
        draw_ids(g, gbuf, n);
        write_all(p2[1], gbuf, n * sizeof(Draw));
        _exit(0);
      }
      close(p2[1]);
      draw_ids(g, cbuf, n);
      have_g = read_all(p2[0], gbuf, n * sizeof(Draw)) ? 1 : 0;
      int st;
      waitpid(gp, &st, 0);
    }
    else if (via_tracer)
    {
      // through the whole SDK path: root spans of the inherited tracer
      for (size_t i = 0; i < n; ++i)
      {
        auto c       = tracer->StartSpan("child")->GetContext();
        cbuf[i].v[0] = cbuf[i].v[1] = 0;
        if (i & 1)
          memcpy(cbuf[i].v, c.trace_id().Id().data(), 16);
        else
          memcpy(cbuf[i].v, c.span_id().Id().data(), 8);
      }
    }
    else
      draw_ids(g, cbuf, n);
    write_all(p1[1], &have_g, sizeof have_g);
    write_all(p1[1], cbuf, n * sizeof(Draw));
    if (have_g)
      write_all(p1[1], gbuf, n * sizeof(Draw));
    _exit(0);
  }
  // ---- parent
  close(p1[1]);
  parent.resize(n);
  if (via_tracer)
  {
    for (size_t i = 0; i < n; ++i)
    {
      auto c         = tracer->StartSpan("parent")->GetContext();
      parent[i].v[0] = parent[i].v[1] = 0;
      if (i & 1)
        memcpy(parent[i].v, c.trace_id().Id().data(), 16);
      else
        memcpy(parent[i].v, c.span_id().Id().data(), 8);
    }
  }
  else
    draw_ids(g, parent.data(), n);
  uint32_t have_g = 0;
  bool ok         = read_all(p1[0], &have_g, sizeof have_g);
  child.resize(n);
  ok = ok && read_all(p1[0], child.data(), n * sizeof(Draw));
  if (ok && have_g)
  {
    grandchild.resize(n);
    ok = read_all(p1[0], grandchild.data(), n * sizeof(Draw));
  }
  close(p1[0]);
  int st = 0;
  if (!ok)
    kill(pid, SIGKILL);
  waitpid(pid, &st, 0);
  return ok && WIFEXITED(st) && WEXITSTATUS(st) == 0 && (!nested || have_g);
}

void compare_draws(const std::vector<Draw> &a, const std::vector<Draw> &b, const char *pair, const std::string &cls,
                   const std::string &detail)
{
  auto &R = vf::report();
  if (a.empty() || b.empty())
    return;
  size_t prefix = 0;
  while (prefix < a.size() && prefix < b.size() && a[prefix] == b[prefix])
    ++prefix;
  R.count("fork_ids_compared", a.size() + b.size());
  if (prefix)
  {
    R.violation("fork-reseed", "equal-prefix:" + cls,
                detail + ": " + pair + " drew the same first " + std::to_string(prefix) + " ids after fork(), first = " +
                    vf::hexs(a[0].v, 16));
    return;
  }
  std::set<Draw> sa(a.begin(), a.end());
  for (auto &d : b)
    if (sa.count(d))
    {
      R.violation("fork-reseed", "shared-id:" + cls, detail + ": " + pair + " both drew " + vf::hexs(d.v, 16));
      return;
    }
}

void fork_case(uint64_t seed, size_t n)
{
  auto &R = vf::report();
  Rng r(seed);
  if (n > kMaxForkIds)
    n = kMaxForkIds;
  unsigned variant = static_cast<unsigned>(r.below(5));
  static const char *names[] = {"main-thread", "secondary-thread", "helper-threads-running", "nested-fork", "via-tracer"};
  std::string cls  = names[variant];
  size_t warm      = static_cast<size_t>(r.range(1, 40));
  std::shared_ptr<Sink> sink = std::make_shared<Sink>();
  std::unique_ptr<trace_sdk::SpanProcessor> proc(
      new trace_sdk::SimpleSpanProcessor(std::unique_ptr<trace_sdk::SpanExporter>(new RecExporter(sink))));
  auto provider = std::make_shared<trace_sdk::TracerProvider>(std::move(proc));
  auto tracer   = provider->GetTracer("vf-c05-fork");
  std::vector<Draw> parent, child, grandchild;
  bool ok = false;
  auto warm_and_fork = [&]() {
    // the forking thread's generator is in use before the fork: the child inherits its state
    trace_sdk::RandomIdGenerator g;
    for (size_t i = 0; i < warm; ++i)
    {
      if (i & 1)
        g.GenerateSpanId();
      else
        tracer->StartSpan("warm")->End();
    }
    ok = fork_body(variant == 4 ? std::min<size_t>(n, 200) : n, variant == 3, variant == 4, tracer, parent, child, grandchild);
  };
  if (variant == 1)
  {
    std::thread t(warm_and_fork);
    t.join();
  }
  else if (variant == 2)
  {
    // other threads keep drawing ids (no allocation) while this one forks
    vf::raw_atomic<bool> stop{false};
    vf::raw_atomic<unsigned> up{0};
    std::vector<std::thread> hs;
    for (int i = 0; i < 2; ++i)
      hs.emplace_back([&]() {
        trace_sdk::RandomIdGenerator g;
        uint64_t sink_v = sid_of(g.GenerateSpanId());  // thread-local generator is set up before the fork can happen
        up.fetch_add(1);
        while (!stop.load())
          sink_v ^= sid_of(g.GenerateSpanId());
        (void)sink_v;
      });
    while (up.load() < 2)
      std::this_thread::yield();
    warm_and_fork();
    stop.store(true);
    for (auto &h : hs)
      h.join();
  }
  else
    warm_and_fork();
  R.count("fork_cases");
  R.count("fork_cases_" + cls);
  if (!ok)
  {
    R.count("fork_harness_failures");
    fprintf(stderr, "fork case failed at harness level (pipe/fork/child exit), variant %s\n", cls.c_str());
    return;
  }
  R.count("fork_cases_generator_warm");
  std::string d = "variant " + cls + ", " + std::to_string(warm) + " draws before fork, " + std::to_string(parent.size()) + " after";
  compare_draws(parent, child, "parent and child", cls, d);
  if (!grandchild.empty())
  {
    compare_draws(child, grandchild, "child and grandchild", cls, d);
    compare_draws(parent, grandchild, "parent and grandchild", cls, d);
  }
  R.nontrivial(vf::mix(seed, variant));
  if (R.want_sample(3))
    R.sample("fork " + d + ": parent first " + vf::hexs(parent[0].v, 8) + " child first " + vf::hexs(child[0].v, 8));
}

}  // namespace

int main(int argc, char **argv)
{
  auto &R = vf::report();
  R.init("C05", argc, argv);
  auto log = nostd::shared_ptr<opentelemetry::sdk::common::internal_log::LogHandler>(new SilentLog());
  opentelemetry::sdk::common::internal_log::GlobalLogHandler::SetLogHandler(log);
  std::string mode     = R.opt.sparam("mode", "model");
  size_t max_ops       = static_cast<size_t>(R.opt.param("ops", 70));
  unsigned max_threads = static_cast<unsigned>(R.opt.param("threads", 8));
  size_t fork_ids      = static_cast<size_t>(R.opt.param("n", 1000));
  R.run_cases([&](uint64_t i) {
    uint64_t s = R.case_seed(i);
    if (mode == "threads")
      threads_case(vf::mix(s, 2), max_ops, max_threads);
    else if (mode == "fork")
      fork_case(vf::mix(s, 3), fork_ids);
    else
      model_case(s, max_ops);
  });
#ifdef VF_SHIM_H
  {
    vf_shim_counters sc;
    vf_counters(&sc);
    R.count("shim_points", sc.points);
    R.count("shim_yields", sc.yields);
    R.count("shim_sleeps", sc.sleeps);
  }
#endif
  return R.finish();
}
