// C09 — W3C trace-context propagation round-trips and only accepts well-formed headers.
// Engine E1: the real header-only HttpTraceContext under ASan+UBSan against an independent
// three-valued recogniser of the traceparent grammar.
//   inject side : random + structured ids, all 256 flag bytes, trace states; invalid contexts must
//                 write nothing; the header must be the exact lowercase level-1 form.
//   extract side: every run enumerates ALL single-byte mutants (each position x 256 values) of
//                 several valid headers, plus all one-byte appends/prepends/deletions/truncations,
//                 then seeded truncation/extension/version/whitespace/NUL/separator variants and
//                 random bytes.  Carrier views are exact-size, non-terminated, and are scribbled or
//                 freed as soon as Extract returns.
#include "opentelemetry/trace/propagation/http_trace_context.h"
#include "opentelemetry/trace/trace_state.h"

#include "vf_propagation.h"

using namespace vfp;
namespace propagation = opentelemetry::trace::propagation;
using vf::Rng;

typedef std::vector<std::pair<std::string, std::string>> List;

static const std::string kTP = "traceparent";
static const std::string kTS = "tracestate";

// ------------------------------------------------------------------------------------------
// the recogniser (independent of the implementation)
// ------------------------------------------------------------------------------------------
enum Tri
{
  kReject   = 0,
  kAccept   = 1,
  kDontCare = 2
};

struct Rec
{
  Tri verdict = kReject;
  std::string cls;          // canonical input class (reason of the verdict)
  bool has_values = false;  // tid/sid/flags below are what the header encodes
  std::string tid, sid;     // lowercase hex
  uint8_t flags = 0;
};

// the grammar on a header with no surrounding whitespace
static Rec shape(const std::string &t)
{
  Rec r;
  size_t n = t.size();
  if (n < 55)
  {
    r.cls = "length<55";
    return r;
  }
  if (t[2] != '-' || t[35] != '-' || t[52] != '-')
  {
    r.cls = "separator";
    return r;
  }
  std::string ver = t.substr(0, 2), tid = t.substr(3, 32), sid = t.substr(36, 16), fl = t.substr(53, 2);
  if (!all_hex(ver))
  {
    r.cls = "non-hex:version";
    return r;
  }
  if (!all_hex(tid))
  {
    r.cls = "non-hex:trace-id";
    return r;
  }
  if (!all_hex(sid))
  {
    r.cls = "non-hex:span-id";
    return r;
  }
  if (!all_hex(fl))
  {
    r.cls = "non-hex:flags";
    return r;
  }
  unsigned version = static_cast<unsigned>((hexval(ver[0]) << 4) | hexval(ver[1]));
  if (version == 0xff)
  {
    r.cls = "version-ff";
    return r;
  }
  if (all_zero_digits(tid))
  {
    r.cls = "zero-trace-id";
    return r;
  }
  if (all_zero_digits(sid))
  {
    r.cls = "zero-span-id";
    return r;
  }
  r.has_values = true;
  r.tid        = lower(tid);
  r.sid        = lower(sid);
  r.flags      = static_cast<uint8_t>((hexval(fl[0]) << 4) | hexval(fl[1]));
  if (version == 0)
  {
    if (n != 55)
    {
      r.has_values = false;
      r.cls        = "v00-length>55";
      return r;
    }
    r.verdict = kAccept;
    r.cls     = "v00";
  }
  else if (n == 55)
  {
    r.verdict = kAccept;
    r.cls     = "vhigher-55";
  }
  else if (t[55] != '-')
  {
    r.verdict = kDontCare;  // W3C: "either the end of the string or a dash"; the statement only says "longer allowed"
    r.cls     = "vhigher-trailing-without-dash";
  }
  else
  {
    bool vchar = true;
    for (size_t i = 56; i < n; ++i)
      vchar &= t[i] > 0x20 && t[i] < 0x7f;
    r.verdict = vchar ? kAccept : kDontCare;
    r.cls     = vchar ? "vhigher-extended" : "vhigher-suffix-not-vchar";
  }
  if (r.verdict == kAccept && !all_lower_hex(ver + tid + sid + fl))
    r.cls += ":uppercase-hex";
  return r;
}

static Rec recognise(bool present, const std::string &raw)
{
  Rec r;
  if (!present)
  {
    r.cls = "absent";
    return r;
  }
  size_t b = 0, e = raw.size();
  bool ows = false, other_ws = false;
  while (b < e && c_space(raw[b]))
  {
    (raw[b] == ' ' || raw[b] == '\t') ? ows = true : other_ws = true;
    ++b;
  }
  while (e > b && c_space(raw[e - 1]))
  {
    (raw[e - 1] == ' ' || raw[e - 1] == '\t') ? ows = true : other_ws = true;
    --e;
  }
  std::string t = raw.substr(b, e - b);
  if (t.empty())
  {
    r.cls = raw.empty() ? "empty" : "blank";
    return r;
  }
  r = shape(t);
  if (r.verdict == kReject)
  {
    // interior whitespace: a lenient reader could drop it; W3C does not say
    bool ws = false;
    std::string u;
    for (char c : t)
    {
      if (c_space(c))
        ws = true;
      else
        u.push_back(c);
    }
    if (ws && shape(u).verdict != kReject)
    {
      r            = Rec();
      r.verdict    = kDontCare;
      r.cls        = "interior-whitespace";
      r.has_values = false;
    }
    return r;
  }
  if (other_ws)
  {
    // CR/LF/VT/FF around the value are "whitespace" for isspace but not HTTP OWS: not decided
    r.verdict = kDontCare;
    r.cls     = "surrounding-non-ows-whitespace";
  }
  else if (ows && r.verdict == kAccept)
    r.cls += ":surrounding-ows";
  return r;
}

// ------------------------------------------------------------------------------------------
// trace state (C14 owns TraceState itself; here only "same trace state across the wire")
// ------------------------------------------------------------------------------------------
static List entries(const trace_api::TraceState &ts)
{
  List l;
  ts.GetAllEntries([&l](nostd::string_view k, nostd::string_view v) noexcept {
    l.emplace_back(std::string(k.data(), k.size()), std::string(v.data(), v.size()));
    return true;
  });
  return l;
}

static std::string join(const List &l)
{
  std::string h;
  for (auto &e : l)
    h += (h.empty() ? "" : ",") + e.first + "=" + e.second;
  return h;
}

static std::string show_list(const List &l)
{
  return "[" + vf::show(join(l), 200) + "](" + std::to_string(l.size()) + ")";
}

// strictly valid members only: lowercase-led key (optionally tenant@system), printable value with
// no ',' '=' and no blank at either end; unique keys; at most 32
static List gen_members(Rng &r)
{
  List l;
  size_t n;
  switch (r.below(8))
  {
    case 0:
      n = 32;
      break;
    case 1:
      n = 31;
      break;
    case 2:
      n = 1;
      break;
    default:
      n = static_cast<size_t>(r.range(1, 8));
  }
  static const std::string ka = "abcxyz019_-*/";
  static const std::string va = "abcXYZ019!#$%&'()*+-./:;<>?@[]^_`{|}~\\\"";
  for (size_t i = 0; i < n; ++i)
  {
    std::string k = "k" + std::to_string(i) + r.bytes(static_cast<size_t>(r.range(0, 5)), ka);
    if (r.chance(1, 8))
      k += "@" + std::string(1, static_cast<char>('a' + r.below(26))) + r.bytes(static_cast<size_t>(r.range(0, 5)), ka);
    std::string v = r.bytes(static_cast<size_t>(r.range(1, 12)), va);
    if (v.size() >= 3 && r.chance(1, 4))
      v[1 + r.below(v.size() - 2)] = ' ';
    // a value may START with a blank (W3C: value = 0*255(chr) nblk-chr); such a state cannot be written as a
    // list member by hand without the blank looking like OWS, so it is built through TraceState::Set below
    if (v.size() >= 2 && r.chance(1, 6))
      v[0] = ' ';
    if (r.chance(1, 40))
      v = r.bytes(256, va);
    l.emplace_back(k, v);
  }
  return l;
}

// independent parse of a tracestate header as a plain list: split on ',', trim OWS, split on first '='
static bool parse_list(const std::string &h, List &out)
{
  out.clear();
  size_t pos = 0;
  while (pos <= h.size())
  {
    size_t c       = h.find(',', pos);
    std::string m  = h.substr(pos, c == std::string::npos ? std::string::npos : c - pos);
    pos            = c == std::string::npos ? h.size() + 1 : c + 1;
    size_t b = 0, e = m.size();
    while (b < e && (m[b] == ' ' || m[b] == '\t'))
      ++b;
    while (e > b && (m[e - 1] == ' ' || m[e - 1] == '\t'))
      --e;
    m = m.substr(b, e - b);
    if (m.empty())
      continue;
    size_t eq = m.find('=');
    if (eq == std::string::npos)
      return false;
    out.emplace_back(m.substr(0, eq), m.substr(eq + 1));
  }
  return true;
}

static std::string members_class(size_t n)
{
  return n == 0 ? "no-tracestate" : (n < 32 ? "members<32" : "members=32");
}

// ------------------------------------------------------------------------------------------
// one Extract, judged
// ------------------------------------------------------------------------------------------
struct TsIn
{
  bool present = false;
  std::string raw;
  bool judged = false;  // raw is absent/empty or a strictly valid list -> the entries are decided
  List want;
};

static propagation::HttpTraceContext &prop()
{
  static propagation::HttpTraceContext p;
  return p;
}

// returns the verdict of the recogniser; `origin` tags counters
static Rec extract_and_judge(Rng &r, bool present, const std::string &raw, const TsIn &ts, const char *origin,
                             uint64_t *hash = nullptr)
{
  auto &R = vf::report();
  Rec rec = recognise(present, raw);
  Carrier c;
  if (present)
    c.put(kTP, raw);
  if (ts.present)
    c.put(kTS, ts.raw);
  if (r.chance(1, 4))
    c.put("x-other", "1");
  Caller caller = make_caller(r);
  std::string witness = std::string("traceparent ") + (present ? "'" + vf::show(raw, 200) + "'" : "(absent)") +
                        (ts.present ? " tracestate '" + vf::show(ts.raw, 120) + "'" : "") + " caller=" + caller.kind;
  context_api::Context out = extract_stable(prop(), c, caller, rec.cls, witness);
  c.kill(r.coin());  // every view the propagator saw is now changed or freed
  Outcome o = judge_returned(caller, out, rec.cls, witness);
  R.count("extracts");
  R.count(std::string("extracts_") + origin);
  if (hash)
    *hash = vf::mix(*hash, vf::fnv1a(raw) ^ (present ? 0 : 0x55) ^ vf::fnv1a(ts.raw) * 7);
  switch (rec.verdict)
  {
    case kAccept:
      R.count("extract_must_accept");
      if (rec.cls.find("uppercase-hex") != std::string::npos)
        R.count("extract_accept_uppercase_hex");
      if (rec.cls.find("surrounding-ows") != std::string::npos)
        R.count("extract_accept_surrounding_ows");
      if (rec.cls.compare(0, 7, "vhigher") == 0)
        R.count("extract_accept_higher_version");
      if (!o.installed)
        R.violation("extract-accepts-wellformed", rec.cls, "refused a well-formed header; " + witness);
      break;
    case kReject:
      R.count("extract_must_reject");
      R.count("reject:" + rec.cls);
      if (o.installed)
        R.violation("extract-rejects-malformed", rec.cls,
                    "installed " + show_sc(o.sc) + " instead of returning the caller's context; " + witness);
      break;
    default:
      R.count("extract_dontcare");
      R.count("dontcare:" + rec.cls);
      R.count(o.installed ? "extract_dontcare_accepted" : "extract_dontcare_refused");
  }
  if (o.installed && o.valid && rec.has_values && rec.verdict != kReject)
  {
    std::string vcls = rec.cls.compare(0, 3, "v00") == 0 ? "v00" : "vhigher";
    if (tid_hex(o.sc) != rec.tid)
      R.violation("extract-values", "trace-id:" + vcls, "got " + show_sc(o.sc) + " want tid=" + rec.tid + "; " + witness);
    if (sid_hex(o.sc) != rec.sid)
      R.violation("extract-values", "span-id:" + vcls, "got " + show_sc(o.sc) + " want sid=" + rec.sid + "; " + witness);
    if (o.sc.trace_flags().flags() != rec.flags)
      R.violation("extract-values", "flags:" + vcls,
                  "got " + show_sc(o.sc) + " want flags=" + hex_byte(rec.flags) + "; " + witness);
    if (!o.sc.IsRemote())
      R.violation("extract-remote", vcls, "extracted context is not marked remote; " + witness);
    if (ts.judged)
    {
      List got = entries(*o.sc.trace_state());
      R.count("extract_tracestate_judged");
      if (got != ts.want)
        R.violation("extract-tracestate", members_class(ts.want.size()),
                    "trace state " + show_list(got) + " want " + show_list(ts.want) + "; " + witness);
    }
    else
      R.count("extract_tracestate_dontcare");
  }
  return rec;
}

// ------------------------------------------------------------------------------------------
// inject + round trip
// ------------------------------------------------------------------------------------------
static std::string field_at(size_t pos)
{
  if (pos < 2)
    return "version";
  if (pos == 2 || pos == 35 || pos == 52)
    return "separator";
  if (pos < 35)
    return "trace-id";
  if (pos < 52)
    return "span-id";
  return "flags";
}

static context_api::Context context_with(const trace_api::SpanContext &sc, Rng &r)
{
  context_api::Context ctx;
  if (r.coin())
    ctx = ctx.SetValue(kMarkerKey, static_cast<int64_t>(7));
  nostd::shared_ptr<trace_api::Span> sp(new trace_api::DefaultSpan(sc));
  return ctx.SetValue(trace_api::kSpanKey, sp);
}

static void inject_roundtrip(Rng &r, const std::string &tid, const std::string &sid, uint8_t flags, const List &members,
                             const char *origin)
{
  auto &R = vf::report();
  nostd::shared_ptr<trace_api::TraceState> ts = trace_api::TraceState::GetDefault();
  if (!members.empty())
  {
    bool leading_blank = false;
    for (auto &e : members)
      leading_blank |= !e.second.empty() && e.second[0] == ' ';
    if (leading_blank || r.chance(1, 5))
    {
      // built member by member (Set puts the key first, so in reverse order)
      for (size_t i = members.size(); i-- > 0;)
      {
        vf::Buf kb(members[i].first), vb(members[i].second);
        ts = ts->Set(nostd::string_view(kb.data(), kb.size()), nostd::string_view(vb.data(), vb.size()));
      }
      if (leading_blank)
        R.count("roundtrip_tracestate_value_with_leading_blank");
    }
    else
    {
      vf::Buf hb(join(members));
      ts = trace_api::TraceState::FromHeader(nostd::string_view(hb.data(), hb.size()));
      r.coin() ? hb.scribble() : hb.release();
    }
    if (entries(*ts) != members)
    {
      R.count("tracestate_precondition_failed");  // TraceState itself is C14's business
      return;
    }
  }
  trace_api::SpanContext sc(trace_id_of(tid), span_id_of(sid), trace_api::TraceFlags(flags), r.coin(), ts);
  context_api::Context ctx = context_with(sc, r);
  Carrier c;
  prop().Inject(c, ctx);
  R.count("injects");
  R.count(std::string("injects_") + origin);
  std::string fcls    = flags_class(flags);
  std::string want    = "00-" + vf::hexs(tid.data(), 16) + "-" + vf::hexs(sid.data(), 8) + "-" + hex_byte(flags);
  std::string witness = "context tid=" + vf::hexs(tid.data(), 16) + " sid=" + vf::hexs(sid.data(), 8) + " flags=" +
                        hex_byte(flags) + " tracestate " + show_list(members) + " -> carrier " + c.show();
  bool usable = false;
  if (!c.has(kTP))
    R.violation("inject-keys", "traceparent-missing", witness);
  else
  {
    std::string got = c.value(kTP);
    usable          = true;
    if (got != want)
    {
      if (got.size() != 55)
        R.violation("inject-form", got.size() < 55 ? "length<55" : "length>55", "want '" + want + "'; " + witness);
      else
      {
        size_t d = 0;
        while (got[d] == want[d])
          ++d;
        std::string f = field_at(d);
        if (lower(got) == want)
          R.violation("inject-lowercase", f == "flags" ? fcls : f, "want '" + want + "'; " + witness);
        else
          R.violation("inject-form", f, "want '" + want + "'; " + witness);
      }
    }
  }
  for (auto &k : c.keys())
    if (k != kTP && k != kTS)
      R.violation("inject-keys", "unexpected-key", "key '" + vf::show(k, 40) + "'; " + witness);
  if (members.empty())
  {
    if (c.has(kTS))
      R.violation("inject-keys", "tracestate-unexpected", witness);
  }
  else
  {
    R.count("injects_with_tracestate");
    List got;
    if (!c.has(kTS))
      R.violation("inject-keys", "tracestate-missing", witness);
    else if (!parse_list(c.value(kTS), got) || got != members)
      R.violation("inject-tracestate", members_class(members.size()), witness);
  }
  if (R.want_sample(8) && r.chance(1, 64))
    R.sample("inject: " + witness);
  if (!usable)
    return;
  // round trip through the carrier the implementation filled (views die after Extract)
  std::string injected = c.value(kTP);
  Rec rec              = recognise(true, injected);
  if (rec.verdict == kReject)
    return;  // already reported above as inject-form; extracting it proves nothing
  Caller caller = make_caller(r, -1, &sc);
  context_api::Context out = extract_stable(prop(), c, caller, "roundtrip", witness);
  c.kill(r.coin());
  Outcome o = judge_returned(caller, out, "roundtrip", witness);
  R.count("roundtrips");
  if (flags > 1)
    R.count("roundtrips_flags_other_bits");
  if (!o.installed)
  {
    R.violation("roundtrip-refused", fcls, "Extract refused what Inject wrote; " + witness);
    return;
  }
  if (!o.valid)
    return;
  if (tid_hex(o.sc) != vf::hexs(tid.data(), 16) || sid_hex(o.sc) != vf::hexs(sid.data(), 8))
    R.violation("roundtrip-ids", fcls, "got " + show_sc(o.sc) + "; " + witness);
  if (o.sc.trace_flags().flags() != flags)
    R.violation("roundtrip-flags", fcls, "got " + show_sc(o.sc) + "; " + witness);
  if (!o.sc.IsRemote())
    R.violation("roundtrip-remote", fcls, "extracted context is not marked remote; " + witness);
  List got = entries(*o.sc.trace_state());
  if (got != members)
    R.violation("roundtrip-tracestate", members_class(members.size()),
                "trace state " + show_list(got) + " want " + show_list(members) + "; " + witness);
}

static void inject_invalid(Rng &r)
{
  auto &R = vf::report();
  std::string cls;
  context_api::Context ctx;
  unsigned k = static_cast<unsigned>(r.below(5));
  std::string tid = gen_id(r, 16), sid = gen_id(r, 8);
  if (k == 0)
  {
    cls = "zero-trace-id";
    tid.assign(16, '\0');
  }
  else if (k == 1)
  {
    cls = "zero-span-id";
    sid.assign(8, '\0');
  }
  else if (k == 2)
  {
    cls = "zero-both";
    tid.assign(16, '\0');
    sid.assign(8, '\0');
  }
  else if (k == 3)
    cls = "no-span";
  else
    cls = "no-span-other-values";
  if (k <= 2)
  {
    nostd::shared_ptr<trace_api::TraceState> ts = trace_api::TraceState::GetDefault();
    if (r.coin())
      ts = trace_api::TraceState::FromHeader("a=1,b=2");
    trace_api::SpanContext sc(trace_id_of(tid), span_id_of(sid), trace_api::TraceFlags(static_cast<uint8_t>(r.below(256))),
                              r.coin(), ts);
    ctx = context_with(sc, r);
  }
  else if (k == 4)
    ctx = ctx.SetValue(kMarkerKey, static_cast<int64_t>(1));
  Carrier c;
  prop().Inject(c, ctx);
  R.count("injects_invalid_context");
  if (c.sets != 0 || !c.entries.empty())
    R.violation("inject-invalid-writes-nothing", cls, "carrier after Inject: " + c.show());
}

// ------------------------------------------------------------------------------------------
// enumerated block: base headers, every single-byte mutant
// ------------------------------------------------------------------------------------------
static const uint64_t kStride = 68;  // slots per base: 0..63 substitute, 64 append, 65 prepend, 66 cut, 67 flags sweep

struct Base
{
  std::string header;
  std::string tid, sid;  // raw bytes
  bool canonical_v00;    // plain 55-byte lowercase version-00 header
};

static std::string one_digit_id(Rng &r, size_t nbytes)
{
  std::string b(nbytes, '\0');
  size_t i = static_cast<size_t>(r.below(nbytes));
  b[i]     = static_cast<char>(r.coin() ? (1 + r.below(15)) : ((1 + r.below(15)) << 4));
  return b;
}

static Base make_base(uint64_t run_seed, uint64_t b)
{
  Rng r(vf::mix(vf::mix(run_seed, 0xC09BA5Eull), b));
  Base base;
  unsigned kind = static_cast<unsigned>(b % 8);
  base.tid      = r.anybytes(16);
  base.sid      = r.anybytes(8);
  base.tid[0] |= 0x10;
  base.sid[0] |= 0x10;
  if (kind == 1)
  {
    // exactly one non-zero digit in each id: changing it to '0' is a zero id
    base.tid = one_digit_id(r, 16);
    base.sid = one_digit_id(r, 8);
  }
  std::string ids = vf::hexs(base.tid.data(), 16) + "-" + vf::hexs(base.sid.data(), 8) + "-" +
                    hex_byte(static_cast<uint8_t>(r.below(256)));
  base.canonical_v00 = false;
  switch (kind)
  {
    case 0:
    case 1:
    case 6:
      base.header        = "00-" + ids;
      base.canonical_v00 = true;
      break;
    case 2:
    {
      base.header = "00-" + ids;  // mixed-case digits
      for (char &c : base.header)
        if (c >= 'a' && c <= 'f' && r.coin())
          c = static_cast<char>(c - 'a' + 'A');
      break;
    }
    case 3:
      base.header = hex_byte(static_cast<uint8_t>(r.range(1, 0xfe))) + "-" + ids;
      break;
    case 4:
      base.header = hex_byte(static_cast<uint8_t>(r.range(1, 0xfe))) + "-" + ids + "-" +
                    r.bytes(static_cast<size_t>(r.range(1, 8)), "abcxyz019-=_.");
      break;
    case 5:
      base.header = std::string(r.coin() ? " " : "\t") + (r.coin() ? " " : "") + "00-" + ids + (r.coin() ? " " : "\t");
      break;
    default:
      base.header = "fe-" + ids;
  }
  return base;
}

static void enum_case(uint64_t run_seed, uint64_t b, uint64_t slot, uint64_t case_seed)
{
  auto &R = vf::report();
  Rng r(case_seed);
  Base base       = make_base(run_seed, b);
  const size_t n  = base.header.size();
  uint64_t h      = vf::mix(b, slot);
  TsIn none;
  none.judged = true;
  if (slot < 64)
  {
    if (slot >= n)
      return;
    for (unsigned v = 0; v < 256; ++v)
    {
      std::string m = base.header;
      m[slot]       = static_cast<char>(v);
      Rec rec       = extract_and_judge(r, true, m, none, "enum_substitute", &h);
      if (R.want_sample(8) && v == 'G' && slot % 16 == 5)
        R.sample("mutant pos " + std::to_string(slot) + " byte 0x47: '" + vf::show(m) + "' -> oracle " +
                 (rec.verdict == kAccept ? "accept " : rec.verdict == kReject ? "reject " : "dontcare ") + rec.cls);
    }
    R.count(base.canonical_v00 ? "enum_single_byte_mutants_v00" : "enum_single_byte_mutants_other_bases", 256);
    if (base.canonical_v00)
      R.count("enum_positions_v00");
  }
  else if (slot == 64 || slot == 65)
  {
    for (unsigned v = 0; v < 256; ++v)
    {
      std::string m = slot == 64 ? base.header + std::string(1, static_cast<char>(v))
                                 : std::string(1, static_cast<char>(v)) + base.header;
      extract_and_judge(r, true, m, none, "enum_extend", &h);
    }
    R.count("enum_one_byte_extensions", 256);
  }
  else if (slot == 66)
  {
    for (size_t k = 0; k < n; ++k)
    {
      extract_and_judge(r, true, base.header.substr(0, k), none, "enum_cut", &h);                       // prefix
      extract_and_judge(r, true, base.header.substr(n - k), none, "enum_cut", &h);                      // suffix
      extract_and_judge(r, true, base.header.substr(0, k) + base.header.substr(k + 1), none, "enum_cut", &h);  // deletion
      extract_and_judge(r, true, base.header.substr(0, k + 1) + base.header.substr(k), none, "enum_cut", &h);  // duplication
      R.count("enum_cuts", 4);
    }
  }
  else
  {
    // inject side: all 256 flag bytes for this base's ids, with and without a trace state
    List members = gen_members(r);
    for (unsigned f = 0; f < 256; ++f)
    {
      inject_roundtrip(r, base.tid, base.sid, static_cast<uint8_t>(f), (f & 1) ? members : List(), "flag_sweep");
      h = vf::mix(h, f);
    }
    R.count("enum_flag_bytes_injected", 256);
  }
  R.nontrivial(h);
}

// ------------------------------------------------------------------------------------------
// seeded variants and random bytes
// ------------------------------------------------------------------------------------------
static std::string valid_header(Rng &r, unsigned version, std::string *tid_out = nullptr)
{
  std::string tid = gen_id(r, 16), sid = gen_id(r, 8);
  if (tid_out)
    *tid_out = tid;
  return hex_byte(static_cast<uint8_t>(version)) + "-" + vf::hexs(tid.data(), 16) + "-" + vf::hexs(sid.data(), 8) + "-" +
         hex_byte(static_cast<uint8_t>(r.chance(1, 2) ? r.below(4) : r.below(256)));
}

static std::string ws_run(Rng &r, const std::string &alphabet)
{
  return r.bytes(static_cast<size_t>(r.range(1, 3)), alphabet);
}

static void variant(Rng &r, uint64_t *hash)
{
  auto &R = vf::report();
  bool present = true;
  unsigned ver = r.chance(2, 3) ? 0 : static_cast<unsigned>(r.range(1, 0xfe));
  std::string h = valid_header(r, ver);
  TsIn ts;
  ts.judged = true;
  // tracestate next to it
  unsigned tk = static_cast<unsigned>(r.below(10));
  if (tk < 3)
  {
    ts.present = true;
    ts.want    = gen_members(r);
    ts.raw     = join(ts.want);
  }
  else if (tk == 3)
  {
    ts.present = true;  // empty value
  }
  else if (tk == 4)
  {
    ts.present = true;
    ts.judged  = false;
    ts.raw     = r.coin() ? r.anybytes(static_cast<size_t>(r.range(1, 40))) : r.bytes(static_cast<size_t>(r.range(1, 40)), "ab=, \t1@");
  }
  const char *origin = "variant";
  unsigned op        = static_cast<unsigned>(r.below(40));
  switch (op)
  {
    case 0:
    case 1:
    case 2:
      break;  // valid as it is (version 00 or higher, 55 bytes)
    case 3:
    case 4:  // higher version, extended after a dash
      h = valid_header(r, static_cast<unsigned>(r.range(1, 0xfe))) + "-" +
          r.bytes(static_cast<size_t>(r.range(0, 12)), "abcxyz019-=_.~");
      break;
    case 5:  // higher version, trailing bytes without a dash (don't-care)
      h = valid_header(r, static_cast<unsigned>(r.range(1, 0xfe))) + r.bytes(static_cast<size_t>(r.range(1, 4)), "abc019=_");
      break;
    case 6:
    case 7:  // truncate
      h = h.substr(0, static_cast<size_t>(r.below(h.size())));
      break;
    case 8:
    case 9:  // extend (any version) with 1..4 bytes
    {
      unsigned k = static_cast<unsigned>(r.below(4));
      h += k == 0 ? r.anybytes(static_cast<size_t>(r.range(1, 4)))
                  : k == 1 ? r.bytes(static_cast<size_t>(r.range(1, 4)), "0123456789abcdef")
                           : k == 2 ? std::string("-") + r.bytes(static_cast<size_t>(r.range(0, 3)), "0123456789abcdef-")
                                    : std::string("-00");
      break;
    }
    case 10:
    case 11:  // one or two bytes substituted
      h[r.below(h.size())] = static_cast<char>(r.below(256));
      if (op == 11)
        h[r.below(h.size())] = r.pick(std::vector<char>{'-', '0', 'g', 'G', ' ', '\0', 'f', 'F', '\xff', ':'});
      break;
    case 12:  // version ff in every spelling, plain and extended
      h.replace(0, 2, r.pick(std::vector<std::string>{"ff", "FF", "fF", "Ff"}));
      if (r.coin())
        h += "-" + r.bytes(static_cast<size_t>(r.range(0, 4)), "abc019");
      break;
    case 13:  // version 00 extended after a dash
      h = valid_header(r, 0) + "-" + r.bytes(static_cast<size_t>(r.range(0, 6)), "abc019-");
      break;
    case 14:  // zero ids
    {
      unsigned k = static_cast<unsigned>(r.below(3));
      if (k != 1)
        h.replace(3, 32, std::string(32, '0'));
      if (k != 0)
        h.replace(36, 16, std::string(16, '0'));
      break;
    }
    case 15:  // uppercase digits, all or some
      if (r.coin())
        h = upper(h);
      else
        for (char &c : h)
          if (r.chance(1, 3))
            c = upper(std::string(1, c))[0];
      break;
    case 16:
    case 17:  // surrounding blank / tab
    {
      unsigned k = static_cast<unsigned>(r.below(3));
      if (k != 1)
        h = ws_run(r, " \t") + h;
      if (k != 0)
        h += ws_run(r, " \t");
      break;
    }
    case 18:  // surrounding CR LF VT FF (don't-care)
      if (r.coin())
        h = ws_run(r, "\r\n\v\f ") + h;
      else
        h += ws_run(r, "\r\n\v\f\t");
      break;
    case 19:  // only whitespace
      h = r.bytes(static_cast<size_t>(r.range(1, 6)), " \t\r\n");
      break;
    case 20:  // interior whitespace
      h.insert(static_cast<size_t>(r.range(1, static_cast<int64_t>(h.size()) - 1)), ws_run(r, " \t"));
      break;
    case 21:  // interior whitespace replacing a byte
      h[static_cast<size_t>(r.range(1, static_cast<int64_t>(h.size()) - 2))] = r.coin() ? ' ' : '\t';
      break;
    case 22:
    case 23:  // NUL: appended, prepended, inserted, substituted
    {
      unsigned k = static_cast<unsigned>(r.below(4));
      if (k == 0)
        h.push_back('\0');
      else if (k == 1)
        h.insert(h.begin(), '\0');
      else if (k == 2)
        h.insert(static_cast<size_t>(r.below(h.size())), 1, '\0');
      else
        h[r.below(h.size())] = '\0';
      break;
    }
    case 24:  // a separator replaced
    {
      static const size_t sp[3] = {2, 35, 52};
      h[sp[r.below(3)]]         = r.pick(std::vector<char>{':', '_', ' ', '/', '.', '+', '0', 'a', '\0', '\xad'});
      break;
    }
    case 25:  // a separator removed / an extra one inserted
      if (r.coin())
      {
        static const size_t sp[3] = {2, 35, 52};
        h.erase(sp[r.below(3)], 1);
      }
      else
        h.insert(static_cast<size_t>(r.below(h.size() + 1)), 1, '-');
      break;
    case 26:  // field lengths off by one, total length kept or not
    {
      std::string v = h.substr(0, 2), t = h.substr(3, 32), s = h.substr(36, 16), f = h.substr(53, 2);
      unsigned k = static_cast<unsigned>(r.below(8));
      if (k == 0)
        t.pop_back(), s += "a";
      else if (k == 1)
        t += "a", s.pop_back();
      else if (k == 2)
        s.pop_back(), f += "1";
      else if (k == 3)
        v += "0", t.pop_back();
      else if (k == 4)
        f.pop_back();
      else if (k == 5)
        f += "0";
      else if (k == 6)
        v.pop_back(), t += "1";
      else
        std::swap(t, s);
      h = v + "-" + t + "-" + s + "-" + f;
      break;
    }
    case 27:
    case 28:
    case 29:  // random bytes
    {
      size_t n   = r.chance(1, 3) ? 55 : static_cast<size_t>(r.range(0, 120));
      unsigned k = static_cast<unsigned>(r.below(3));
      h          = k == 0 ? r.anybytes(n) : k == 1 ? r.bytes(n, "0123456789abcdef-") : r.bytes(n, "0-f ");
      origin     = "random_bytes";
      break;
    }
    case 30:  // right shape, random digits everywhere (any version)
    {
      h      = r.bytes(55, "0123456789abcdef");
      h[2] = h[35] = h[52] = '-';
      if (r.chance(1, 8))
        h += "-" + r.bytes(3, "abc");
      origin = "random_bytes";
      break;
    }
    case 31:  // absent
      present = false;
      break;
    case 32:  // empty value
      h.clear();
      break;
    case 33:  // very long
      h += (r.coin() ? "-" : "") + r.bytes(static_cast<size_t>(r.range(1000, 5000)), r.coin() ? "0123456789abcdef-" : "xyz");
      break;
    case 34:  // non-ASCII digit look-alikes and high bytes
      if (r.coin())
        h[r.below(h.size())] = static_cast<char>(0x80 + r.below(0x80));
      else
        h.replace(static_cast<size_t>(3 + r.below(30)), 1, "\xef\xbc\x91");  // U+FF11 fullwidth one
      break;
    case 35:  // one non-hex ASCII letter or punctuation in a digit position
    {
      static const size_t lo[4] = {0, 3, 36, 53}, len[4] = {2, 32, 16, 2};
      size_t f                  = static_cast<size_t>(r.below(4));
      h[lo[f] + r.below(len[f])] = r.pick(std::vector<char>{'g', 'G', 'z', '@', '`', '/', ':', 'x', '+', '.'});
      break;
    }
    case 36:  // two headers glued (a folded duplicate header line)
      h = h + "," + valid_header(r, 0);
      break;
    case 37:  // minimal ids
      h = std::string("00-") + std::string(31, '0') + "1-" + std::string(15, '0') + "1-" + hex_byte(static_cast<uint8_t>(r.below(256)));
      break;
    case 38:  // 64-bit trace id in the low half / high half
      if (r.coin())
        h.replace(3, 16, std::string(16, '0'));
      else
        h.replace(19, 16, std::string(16, '0'));
      break;
    default:  // version 00 but one of the other fields valid only for higher versions: flags 3 digits + shorter id
      h = "00-" + h.substr(3, 32) + "-" + h.substr(36, 16) + "-" + r.bytes(1, "0123456789abcdef");
  }
  Rec rec = extract_and_judge(r, present, h, ts, origin, hash);
  if (R.want_sample(8) && r.chance(1, 2000))
    R.sample(std::string("variant: '") + vf::show(h, 100) + "' -> oracle " +
             (rec.verdict == kAccept ? "accept " : rec.verdict == kReject ? "reject " : "dontcare ") + rec.cls);
}

static void random_case(uint64_t seed, uint64_t variants)
{
  auto &R = vf::report();
  Rng r(seed);
  uint64_t h = seed;
  // inject side
  std::string tid = gen_id(r, 16), sid = gen_id(r, 8);
  uint8_t flags;
  switch (r.below(6))
  {
    case 0:
      flags = 0;
      break;
    case 1:
      flags = 1;
      break;
    case 2:
      flags = static_cast<uint8_t>(r.pick(std::vector<int>{2, 3, 0x0a, 0xa0, 0xab, 0xff, 0xf0, 0x0f, 0x80, 0xfe}));
      break;
    default:
      flags = static_cast<uint8_t>(r.below(256));
  }
  List members;
  if (r.coin())
    members = gen_members(r);
  inject_roundtrip(r, tid, sid, flags, members, "random");
  if (r.chance(1, 4))
    inject_invalid(r);
  for (uint64_t k = 0; k < variants; ++k)
    variant(r, &h);
  R.nontrivial(h);
}

// Case layout (independent of tier and of the total case count, so any case replays alone):
// every kEnumEvery-th case is the next slot of the enumerated block (base = e / kStride,
// slot = e % kStride with e = i / kEnumEvery); every other case is a seeded random case.
// kEnumEvery is coprime with the shard counts so the enumerated cases spread over all shards.
static const uint64_t kEnumEvery = 33;

int main(int argc, char **argv)
{
  auto &R = vf::report();
  R.init("C09", argc, argv);
  uint64_t variants = static_cast<uint64_t>(R.opt.param("variants_per_case", 8));
  R.run_cases([&](uint64_t i) {
    if (i % kEnumEvery == 0)
      enum_case(R.opt.seed, (i / kEnumEvery) / kStride, (i / kEnumEvery) % kStride, R.case_seed(i));
    else
      random_case(R.case_seed(i), variants);
  });
  return R.finish();
}
