// C07 — histogram points are exact summaries of the recorded values.
// Engine E1: generated boundary lists x value multisets x splits into collection intervals are
// applied to the real histogram aggregations (directly, through TemporalMetricStorage, and
// through MeterProvider -> View -> Histogram -> pull readers) and to a multiset model that uses
// the same double comparisons on exactly representable values.  ASan+UBSan build.
#include "opentelemetry/common/key_value_iterable_view.h"
#include "opentelemetry/context/context.h"
#include "opentelemetry/sdk/common/global_log_handler.h"
#include "opentelemetry/sdk/metrics/aggregation/aggregation_config.h"
#include "opentelemetry/sdk/metrics/aggregation/default_aggregation.h"
#include "opentelemetry/sdk/metrics/aggregation/histogram_aggregation.h"
#include "opentelemetry/sdk/metrics/export/metric_producer.h"
#include "opentelemetry/sdk/metrics/meter_context.h"
#include "opentelemetry/sdk/metrics/meter_provider.h"
#include "opentelemetry/sdk/metrics/metric_reader.h"
#include "opentelemetry/sdk/metrics/state/attributes_hashmap.h"
#include "opentelemetry/sdk/metrics/state/metric_collector.h"
#include "opentelemetry/sdk/metrics/state/temporal_metric_storage.h"
#include "opentelemetry/sdk/metrics/view/instrument_selector.h"
#include "opentelemetry/sdk/metrics/view/meter_selector.h"
#include "opentelemetry/sdk/metrics/view/view.h"

#include <cfloat>
#include <limits>

#include "vf_core.h"

namespace sdkm        = opentelemetry::sdk::metrics;
namespace metrics_api = opentelemetry::metrics;
namespace nostd       = opentelemetry::nostd;
using vf::Rng;

// ------------------------------------------------------------------------------------------
// silent SDK diagnostics (counted, never printed)
// ------------------------------------------------------------------------------------------
class CountingLogHandler : public opentelemetry::sdk::common::internal_log::LogHandler
{
public:
  void Handle(opentelemetry::sdk::common::internal_log::LogLevel,
              const char *,
              int,
              const char *,
              const opentelemetry::sdk::common::AttributeMap &) noexcept override
  {
    ++n;
  }
  uint64_t n = 0;
};

// ------------------------------------------------------------------------------------------
// configuration and model
// ------------------------------------------------------------------------------------------
static const std::vector<double> kSpecDefaultBounds = {0.0,   5.0,   10.0,   25.0,   50.0,   75.0,   100.0,  250.0,
                                                       500.0, 750.0, 1000.0, 2500.0, 5000.0, 7500.0, 10000.0};
static const double kTwo53 = 9007199254740992.0;

struct Val
{
  int64_t i;  // long instruments
  double d;   // double instruments
};

struct Cfg
{
  bool is_long     = false;
  bool use_default = false;  // no aggregation config at all (no view)
  std::vector<double> bounds;
  bool rmm = true;
  std::string bclass;
};

struct Summary
{
  std::vector<uint64_t> counts;
  uint64_t n = 0;
  int64_t isum = 0, imin = 0, imax = 0;
  double dsum = 0, dmin = 0, dmax = 0;
  bool exact    = true;   // double: every value is a multiple of 2^-8 below 2^32 (sums exact in any order)
  bool beyond53 = false;  // long: some value above 2^53 (int -> double not exact)
  bool all_tiny = true;   // double: every value below the smallest normal double
};

static bool dyadic(double x)
{
  return x >= 0 && x < 4294967296.0 && std::floor(x * 256.0) == x * 256.0;
}

// bucket i holds the values v with b[i-1] < v <= b[i]; the last bucket everything above the top
static size_t model_bucket(const std::vector<double> &b, double v)
{
  size_t i = 0;
  while (i < b.size() && !(v <= b[i]))
    ++i;
  return i;
}

static Summary summarize(const Cfg &c, const std::vector<Val> &vals)
{
  Summary s;
  s.counts.assign(c.bounds.size() + 1, 0);
  for (auto &v : vals)
  {
    double x = c.is_long ? static_cast<double>(v.i) : v.d;
    ++s.counts[model_bucket(c.bounds, x)];
    if (c.is_long)
    {
      if (v.i > static_cast<int64_t>(kTwo53))
        s.beyond53 = true;
      s.isum += v.i;
      s.imin = s.n ? (std::min)(s.imin, v.i) : v.i;
      s.imax = s.n ? (std::max)(s.imax, v.i) : v.i;
    }
    else
    {
      if (!dyadic(v.d))
        s.exact = false;
      if (!(v.d < DBL_MIN))
        s.all_tiny = false;
      s.dsum += v.d;
      s.dmin = s.n ? (v.d < s.dmin ? v.d : s.dmin) : v.d;
      s.dmax = s.n ? (v.d > s.dmax ? v.d : s.dmax) : v.d;
    }
    ++s.n;
  }
  return s;
}

static std::string dstr(double d)
{
  char b[64];
  snprintf(b, sizeof b, "%.17g", d);
  return b;
}

static std::string show_bounds(const std::vector<double> &b)
{
  std::string s = "[";
  for (size_t i = 0; i < b.size() && i < 45; ++i)
    s += (i ? "," : "") + dstr(b[i]);
  return s + "](" + std::to_string(b.size()) + ")";
}

static std::string show_vals(const Cfg &c, const std::vector<Val> &v)
{
  std::string s = "{";
  for (size_t i = 0; i < v.size() && i < 24; ++i)
    s += (i ? "," : "") + (c.is_long ? std::to_string(v[i].i) : dstr(v[i].d));
  if (v.size() > 24)
    s += ",...";
  return s + "}(" + std::to_string(v.size()) + ")";
}

static std::string show_counts(const std::vector<uint64_t> &c)
{
  std::string s = "[";
  for (size_t i = 0; i < c.size() && i < 45; ++i)
    s += (i ? "," : "") + std::to_string(c[i]);
  return s + "]";
}

static std::string show_cfg(const Cfg &c)
{
  return std::string(c.is_long ? "long" : "double") + " bounds=" + (c.use_default ? "default" : show_bounds(c.bounds)) +
         " record_min_max=" + (c.rmm ? "1" : "0");
}

// what to compare on a point
enum Parts
{
  kAll       = 0,
  kNoMinMax  = 1,  // points produced by Diff: min/max cannot be recovered, flag not judged
};

// Compare one point with the model.  Returns true when everything that was judged matched.
static bool check_point(const sdkm::HistogramPointData &p,
                        const Summary &want,
                        const Cfg &c,
                        const std::string &path,
                        const std::vector<Val> &vals,
                        Parts parts        = kAll,
                        double sum_scale   = 0.0 /* magnitude the tolerance refers to (Diff) */)
{
  auto &R         = vf::report();
  std::string it  = c.is_long ? "long" : "double";
  std::string cls = it + ":" + path + (want.beyond53 ? ":beyond53" : "");
  bool ok         = true;
  auto fail       = [&](const char *assertion, const std::string &cl, const std::string &what) {
    ok = false;
    R.violation(assertion, cl, what + " | " + show_cfg(c) + " values=" + show_vals(c, vals) + " path=" + path);
  };
  // the sum of a Diff result has its own assertion id (one key per instrument type)
  const char *sum_id  = parts == kNoMinMax ? "diff-sum" : "sum";
  std::string sum_cls = parts == kNoMinMax ? it : cls;
  R.count("points_checked");
  R.count("points_" + path);
  if (p.boundaries_ != c.bounds)
    fail("boundaries", cls, "point boundaries " + show_bounds(p.boundaries_) + " want " + show_bounds(c.bounds));
  uint64_t tot = 0;
  for (auto x : p.counts_)
    tot += x;
  if (tot != p.count_)
    fail("buckets-sum-to-count", cls, "sum(buckets)=" + std::to_string(tot) + " count=" + std::to_string(p.count_));
  if (p.count_ != want.n)
    fail("count", cls, "count=" + std::to_string(p.count_) + " want " + std::to_string(want.n));
  if (!want.beyond53)
  {
    if (p.counts_ != want.counts)
      fail("bucket-counts", cls, "buckets " + show_counts(p.counts_) + " want " + show_counts(want.counts));
  }
  else
    R.count("beyond53_bucket_dontcare");
  // sum
  if (c.is_long)
  {
    if (!nostd::holds_alternative<int64_t>(p.sum_))
      fail("value-type", cls, "sum of a long histogram is not int64");
    else if (nostd::get<int64_t>(p.sum_) != want.isum)
      fail(sum_id, sum_cls, "sum=" + std::to_string(nostd::get<int64_t>(p.sum_)) + " want " + std::to_string(want.isum));
  }
  else
  {
    if (!nostd::holds_alternative<double>(p.sum_))
      fail("value-type", cls, "sum of a double histogram is not double");
    else
    {
      double got = nostd::get<double>(p.sum_);
      bool good;
      if (want.exact)
        good = got == want.dsum;
      else
      {
        double scale = (std::max)(std::fabs(want.dsum), sum_scale);
        good         = std::fabs(got - want.dsum) <= 1e-9 * scale;
      }
      if (!good)
        fail(sum_id, parts == kNoMinMax ? sum_cls : cls + (want.exact ? ":exact" : ":tolerance"),
             "sum=" + dstr(got) + " want " + dstr(want.dsum));
    }
  }
  if (parts == kNoMinMax)
    return ok;
  // min / max
  if (p.record_min_max_ != c.rmm)
    fail("minmax-flag", cls + (c.rmm ? ":enabled-but-absent" : ":disabled-but-present"),
         std::string("point.record_min_max=") + (p.record_min_max_ ? "1" : "0"));
  if (c.rmm && p.record_min_max_)
  {
    if (want.n == 0)
      R.count("minmax_empty_dontcare");
    else if (c.is_long)
    {
      if (!nostd::holds_alternative<int64_t>(p.min_) || !nostd::holds_alternative<int64_t>(p.max_))
        fail("value-type", cls, "min/max of a long histogram is not int64");
      else
      {
        if (nostd::get<int64_t>(p.min_) != want.imin)
          fail("min", cls, "min=" + std::to_string(nostd::get<int64_t>(p.min_)) + " want " + std::to_string(want.imin));
        if (nostd::get<int64_t>(p.max_) != want.imax)
          fail("max", cls, "max=" + std::to_string(nostd::get<int64_t>(p.max_)) + " want " + std::to_string(want.imax));
      }
    }
    else
    {
      if (!nostd::holds_alternative<double>(p.min_) || !nostd::holds_alternative<double>(p.max_))
        fail("value-type", cls, "min/max of a double histogram is not double");
      else
      {
        // the class of the known max-sentinel defect is a property of the input multiset only
        std::string mcls = want.all_tiny ? "double-all-below-min-normal" : cls;
        if (want.all_tiny)
          R.count("minmax_all_below_min_normal_points");
        if (!(nostd::get<double>(p.min_) == want.dmin))
          fail("min", mcls, "min=" + dstr(nostd::get<double>(p.min_)) + " want " + dstr(want.dmin));
        if (!(nostd::get<double>(p.max_) == want.dmax))
          fail("max", mcls, "max=" + dstr(nostd::get<double>(p.max_)) + " want " + dstr(want.dmax));
      }
    }
    R.count("minmax_checked");
  }
  return ok;
}

// ------------------------------------------------------------------------------------------
// generators
// ------------------------------------------------------------------------------------------
static void gen_bounds(Rng &r, Cfg &c)
{
  unsigned k = static_cast<unsigned>(r.below(100));
  c.bounds.clear();
  if (k < 14)
  {
    c.use_default = true;
    c.bounds      = kSpecDefaultBounds;
    c.bclass      = "default";
    return;
  }
  if (k < 18)
  {
    c.bounds = kSpecDefaultBounds;  // the default list, but through a view
    c.bclass = "default-via-view";
    return;
  }
  if (k < 36)
  {
    c.bclass = "empty";
    return;
  }
  if (k < 46)
  {
    static const double singles[] = {0.0, 1.0, 0.5, 100.0, 1e300, 4.9406564584124654e-324, DBL_MIN, 0.1, 1e-310, 3.0};
    c.bounds.push_back(r.chance(1, 4) ? static_cast<double>(r.below(100000)) / 256.0 : r.pick(singles));
    c.bclass = "single";
    return;
  }
  size_t n      = static_cast<size_t>(r.chance(1, 5) ? r.range(30, 40) : r.range(2, 30));
  unsigned kind = static_cast<unsigned>(r.below(6));
  std::vector<double> b;
  switch (kind)
  {
    case 0:  // small integers
      for (size_t i = 0; i < n; ++i)
        b.push_back(static_cast<double>(r.below(1001)));
      c.bclass = "integers";
      break;
    case 1:  // dyadic fractions
      for (size_t i = 0; i < n; ++i)
        b.push_back(static_cast<double>(r.below(64 * 256)) / 256.0);
      c.bclass = "dyadic";
      break;
    case 2:  // decimal fractions (not exactly representable)
      for (size_t i = 0; i < n; ++i)
        b.push_back(static_cast<double>(r.below(2000)) * 0.1);
      c.bclass = "decimal";
      break;
    case 3:  // wide geometric range up to 1e300
    {
      for (size_t i = 0; i < n; ++i)
        b.push_back(std::pow(10.0, static_cast<double>(r.range(-300, 300))) * (1.0 + static_cast<double>(r.below(9))));
      b.push_back(1e300);
      c.bclass = "geometric";
      break;
    }
    case 4:  // denormal boundaries
      for (size_t i = 0; i < n; ++i)
      {
        unsigned q = static_cast<unsigned>(r.below(10));
        if (q < 5)
          b.push_back(4.9406564584124654e-324 * static_cast<double>(1 + r.below(50)));
        else if (q < 7)
          b.push_back(1e-310 * static_cast<double>(1 + r.below(50)));
        else if (q < 8)
          b.push_back(DBL_MIN);
        else
          b.push_back(static_cast<double>(r.below(100)));
      }
      c.bclass = "denormal";
      break;
    default:  // clusters of adjacent doubles
    {
      while (b.size() < n)
      {
        double x = r.coin() ? static_cast<double>(r.below(1000)) * 0.25 : r.unit() * 1000.0;
        size_t m = static_cast<size_t>(r.range(1, 4));
        for (size_t j = 0; j < m; ++j)
        {
          b.push_back(x);
          x = std::nextafter(x, std::numeric_limits<double>::infinity());
        }
      }
      c.bclass = "adjacent";
    }
  }
  if (r.chance(1, 8))
  {
    b.push_back(-static_cast<double>(1 + r.below(20)));
    b.push_back(-0.5);
  }
  if (r.chance(1, 6))
    b.push_back(1e300);
  for (auto &x : b)
    if (x == 0.0)
      x = 0.0;  // no negative zero among the boundaries
  std::sort(b.begin(), b.end());
  b.erase(std::unique(b.begin(), b.end()), b.end());
  c.bounds = b;
}

struct ValueStats
{
  bool eq_boundary = false, denormal = false, huge = false, all_zero = true, neighbour = false;
};

static std::vector<Val> gen_values(Rng &r, const Cfg &c, ValueStats &st)
{
  std::vector<Val> out;
  unsigned q = static_cast<unsigned>(r.below(100));
  size_t n;
  if (q < 4)
    n = 0;
  else if (q < 12)
    n = 1;
  else if (q < 60)
    n = static_cast<size_t>(r.range(2, 20));
  else
    n = static_cast<size_t>(r.range(21, 200));
  unsigned mode = static_cast<unsigned>(r.below(100));
  const double inf = std::numeric_limits<double>::infinity();
  double top       = c.bounds.empty() ? 100.0 : (std::max)(1.0, (std::min)(c.bounds.back(), 1e6));
  bool used_1e308  = false;
  size_t beyond    = 0;
  for (size_t i = 0; i < n; ++i)
  {
    Val v{0, 0.0};
    if (c.is_long)
    {
      if (mode < 13)
        v.i = 0;
      else
      {
        unsigned w = static_cast<unsigned>(r.below(100));
        if (w < 10)
          v.i = 0;
        else if (w < 45 && !c.bounds.empty())
        {
          double b = r.pick(c.bounds);
          if (b >= 0 && b < 9e15)
          {
            int64_t f = static_cast<int64_t>(std::floor(b));
            v.i       = f + r.range(-1, 1);
            if (v.i < 0)
              v.i = 0;
          }
          else
            v.i = static_cast<int64_t>(r.below(20000));
        }
        else if (w < 75 || mode < 60)
          v.i = static_cast<int64_t>(r.below(static_cast<uint64_t>(top * 2) + 2));
        else if (w < 92 || mode < 85 || beyond >= 64)
        {
          unsigned e = static_cast<unsigned>(r.below(6));
          v.i        = e == 0 ? static_cast<int64_t>(kTwo53)
                              : (e == 1 ? static_cast<int64_t>(kTwo53) - 1
                                        : static_cast<int64_t>(r.next() >> (11 + r.below(40))));
        }
        else
        {
          v.i = static_cast<int64_t>(kTwo53) + 1 + static_cast<int64_t>(r.below((1ull << 55) - (1ull << 53)));
          ++beyond;
        }
      }
      if (v.i != 0)
        st.all_zero = false;
      for (double b : c.bounds)
        if (v.i <= static_cast<int64_t>(kTwo53) && static_cast<double>(v.i) == b)
          st.eq_boundary = true;
      if (v.i > 1000000000000ll)
        st.huge = true;
    }
    else
    {
      if (mode < 13)
        v.d = r.chance(1, 16) ? -0.0 : 0.0;
      else if (mode < 21)
      {
        unsigned w = static_cast<unsigned>(r.below(4));
        v.d        = w == 0 ? 0.0
                            : (w == 1 ? 4.9406564584124654e-324 * static_cast<double>(1 + r.below(100))
                                      : (w == 2 ? 1e-310 * static_cast<double>(r.below(100)) : DBL_MIN * 0.5));
      }
      else if (mode < 56)
      {
        // exactly representable class: multiples of 2^-8 below 2^32
        unsigned w = static_cast<unsigned>(r.below(100));
        if (w < 8)
          v.d = 0.0;
        else if (w < 45 && !c.bounds.empty())
        {
          double b = r.pick(c.bounds);
          double d = static_cast<double>(r.range(-1, 1)) / 256.0;
          v.d      = dyadic(b) && dyadic(b + d) ? b + d : static_cast<double>(r.below(1000));
        }
        else if (w < 85)
          v.d = static_cast<double>(r.below(static_cast<uint64_t>(top * 2 * 256) + 2)) / 256.0;
        else
          v.d = static_cast<double>(r.next() >> (24 + r.below(30))) / 256.0;
      }
      else
      {
        unsigned w = static_cast<unsigned>(r.below(100));
        if (w < 6)
          v.d = 0.0;
        else if (w < 26 && !c.bounds.empty())
          v.d = r.pick(c.bounds);
        else if (w < 46 && !c.bounds.empty())
        {
          v.d          = std::nextafter(r.pick(c.bounds), r.coin() ? inf : -inf);
          st.neighbour = true;
        }
        else if (w < 56 && c.bounds.size() >= 2)
        {
          size_t j = static_cast<size_t>(r.below(c.bounds.size() - 1));
          v.d      = c.bounds[j] / 2 + c.bounds[j + 1] / 2;
        }
        else if (w < 64)
          v.d = 4.9406564584124654e-324 * static_cast<double>(1 + r.below(1000));
        else if (w < 68)
          v.d = r.coin() ? DBL_MIN : std::nextafter(DBL_MIN, 0.0);
        else if (w < 72)
          v.d = 1e300 * (r.coin() ? 1.0 : r.unit());
        else if (w < 76 && !used_1e308)
        {
          v.d        = r.coin() ? 1e308 : 1.5e308;
          used_1e308 = true;  // one per multiset: the total must stay finite in every order
        }
        else if (w < 84)
          v.d = top * (1.0 + r.unit() * 3);
        else
          v.d = r.unit() * top;
        if (!(v.d >= 0))
          v.d = 0.0;  // non-negative values only (neighbours / midpoints of negative boundaries)
      }
      if (v.d != 0.0)
        st.all_zero = false;
      if (v.d != 0.0 && v.d < DBL_MIN)
        st.denormal = true;
      if (v.d >= 1e300)
        st.huge = true;
      for (double b : c.bounds)
        if (v.d == b)
          st.eq_boundary = true;
    }
    out.push_back(v);
  }
  if (n == 0)
    st.all_zero = false;
  return out;
}

// ------------------------------------------------------------------------------------------
// direct aggregation objects: one shot, split + Merge, Diff
// ------------------------------------------------------------------------------------------
static sdkm::InstrumentDescriptor descriptor(const Cfg &c)
{
  return sdkm::InstrumentDescriptor{"h", "", "", sdkm::InstrumentType::kHistogram,
                                    c.is_long ? sdkm::InstrumentValueType::kLong : sdkm::InstrumentValueType::kDouble};
}

static std::unique_ptr<sdkm::Aggregation> make_agg(Rng &r, const Cfg &c)
{
  sdkm::HistogramAggregationConfig hc;
  hc.boundaries_     = c.bounds;
  hc.record_min_max_ = c.rmm;
  const sdkm::AggregationConfig *p = c.use_default ? nullptr : &hc;
  switch (r.below(3))
  {
    case 0:
      return sdkm::DefaultAggregation::CreateAggregation(sdkm::AggregationType::kHistogram, descriptor(c), p);
    case 1:
      return sdkm::DefaultAggregation::CreateAggregation(descriptor(c), p);
    default:
      if (c.is_long)
        return std::unique_ptr<sdkm::Aggregation>(new sdkm::LongHistogramAggregation(p));
      return std::unique_ptr<sdkm::Aggregation>(new sdkm::DoubleHistogramAggregation(p));
  }
}

static void feed(sdkm::Aggregation &a, const Cfg &c, const Val &v)
{
  if (c.is_long)
    a.Aggregate(v.i, {});
  else
    a.Aggregate(v.d, {});
}

static std::unique_ptr<sdkm::Aggregation> agg_of(Rng &r, const Cfg &c, const std::vector<Val> &vals)
{
  auto a = make_agg(r, c);
  for (auto &v : vals)
    feed(*a, c, v);
  return a;
}

static bool point_of(const sdkm::Aggregation &a, sdkm::HistogramPointData &out)
{
  auto pt = a.ToPoint();
  if (!nostd::holds_alternative<sdkm::HistogramPointData>(pt))
    return false;
  out = std::move(nostd::get<sdkm::HistogramPointData>(pt));
  return true;
}

static void direct_part(Rng &r, const Cfg &c, const std::vector<Val> &vals, size_t k)
{
  auto &R        = vf::report();
  std::string it = c.is_long ? "long" : "double";
  sdkm::HistogramPointData p;
  {
    auto a = agg_of(r, c, vals);
    if (!point_of(*a, p))
      R.violation("point-type", it + ":direct", "ToPoint is not a HistogramPointData");
    else
      check_point(p, summarize(c, vals), c, "direct", vals);
  }
  if (k < 2)
    return;
  // split: cut the sequence at random places, or deal the values out at random
  std::vector<std::vector<Val>> parts(k);
  if (r.coin())
  {
    for (auto &v : vals)
      parts[r.below(k)].push_back(v);
  }
  else
  {
    std::vector<size_t> cuts;
    for (size_t j = 0; j + 1 < k; ++j)
      cuts.push_back(static_cast<size_t>(r.below(vals.size() + 1)));
    std::sort(cuts.begin(), cuts.end());
    size_t j = 0;
    for (size_t i = 0; i < vals.size(); ++i)
    {
      while (j < cuts.size() && i >= cuts[j])
        ++j;
      parts[j].push_back(vals[i]);
    }
  }
  R.count("merge_splits");
  if (k >= 3)
    R.count("merge_splits_k_ge3");
  std::vector<Val> uni = parts[0];
  auto acc             = agg_of(r, c, parts[0]);
  for (size_t j = 1; j < k; ++j)
  {
    if (parts[j].empty())
      R.count("merge_with_empty_interval");
    auto aj              = agg_of(r, c, parts[j]);
    std::vector<Val> nxt = uni;
    nxt.insert(nxt.end(), parts[j].begin(), parts[j].end());
    bool swapped = r.chance(1, 3);
    auto merged  = swapped ? aj->Merge(*acc) : acc->Merge(*aj);
    bool ok      = merged && point_of(*merged, p);
    if (!ok)
      R.violation("point-type", it + ":merge", "Merge gave no histogram point");
    else
      ok = check_point(p, summarize(c, nxt), c, "merge", nxt);
    // Diff(previous cumulative, new cumulative) is the interval
    std::unique_ptr<sdkm::Aggregation> cum_next = ok ? std::move(merged) : agg_of(r, c, nxt);
    auto d                                     = acc->Diff(*cum_next);
    if (!d || !point_of(*d, p))
      R.violation("point-type", it + ":diff", "Diff gave no histogram point");
    else
    {
      // a difference of two sums is exact only if both sums are; otherwise the tolerance refers to
      // the magnitude of the larger cumulative sum (cancellation)
      Summary all  = summarize(c, nxt);
      Summary part = summarize(c, parts[j]);
      part.exact   = all.exact;
      check_point(p, part, c, "diff", parts[j], kNoMinMax, std::fabs(all.dsum));
      R.count("diff_checked");
    }
    // continue from the model's state after a mismatch
    acc = std::move(cum_next);
    uni = nxt;
  }
}

// ------------------------------------------------------------------------------------------
// histories over collection cycles and readers: two back ends
// ------------------------------------------------------------------------------------------
static const char *kSetNames[] = {"", "k=a", "k=b"};

static std::string attrs_string(const sdkm::PointAttributes &a)
{
  std::string s;
  for (auto &kv : a)
  {
    if (!s.empty())
      s += ",";
    s += kv.first + "=";
    if (nostd::holds_alternative<std::string>(kv.second))
      s += nostd::get<std::string>(kv.second);
    else
      s += "?";
  }
  return s;
}

typedef std::vector<std::pair<std::string, sdkm::HistogramPointData>> Points;

struct Backend
{
  virtual ~Backend() {}
  virtual void record(size_t set, const Val &v) = 0;
  // collect as reader r; false + err on a malformed delivery
  virtual bool collect(size_t reader, Points &out, std::string &err) = 0;
  virtual const char *name() const = 0;
};

class PullReader : public sdkm::MetricReader
{
public:
  explicit PullReader(sdkm::AggregationTemporality t) : t_(t) {}
  sdkm::AggregationTemporality GetAggregationTemporality(sdkm::InstrumentType) const noexcept override { return t_; }

private:
  bool OnForceFlush(std::chrono::microseconds) noexcept override { return true; }
  bool OnShutDown(std::chrono::microseconds) noexcept override { return true; }
  sdkm::AggregationTemporality t_;
};

static bool take_metric(const sdkm::MetricData &md, sdkm::AggregationTemporality want_t, Points &out, std::string &err)
{
  if (md.aggregation_temporality != want_t)
    err = "wrong temporality on the metric";
  for (auto &pda : md.point_data_attr_)
  {
    if (!nostd::holds_alternative<sdkm::HistogramPointData>(pda.point_data))
    {
      err = "point is not a histogram point";
      continue;
    }
    out.emplace_back(attrs_string(pda.attributes), nostd::get<sdkm::HistogramPointData>(pda.point_data));
  }
  return err.empty();
}

struct MeterBackend : Backend
{
  const Cfg &c;
  std::unique_ptr<sdkm::MeterProvider> mp;
  std::vector<std::shared_ptr<PullReader>> readers;
  std::vector<sdkm::AggregationTemporality> temp;
  nostd::unique_ptr<metrics_api::Histogram<uint64_t>> hl;
  nostd::unique_ptr<metrics_api::Histogram<double>> hd;

  MeterBackend(const Cfg &cfg, const std::vector<sdkm::AggregationTemporality> &t, bool view_type_default) : c(cfg), temp(t)
  {
    mp.reset(new sdkm::MeterProvider());
    for (auto tt : t)
    {
      readers.push_back(std::make_shared<PullReader>(tt));
      mp->AddMetricReader(readers.back());
    }
    if (!c.use_default)
    {
      auto hc             = std::make_shared<sdkm::HistogramAggregationConfig>();
      hc->boundaries_     = c.bounds;
      hc->record_min_max_ = c.rmm;
      mp->AddView(
          std::unique_ptr<sdkm::InstrumentSelector>(new sdkm::InstrumentSelector(sdkm::InstrumentType::kHistogram, "h", "")),
          std::unique_ptr<sdkm::MeterSelector>(new sdkm::MeterSelector("m", "", "")),
          std::unique_ptr<sdkm::View>(new sdkm::View(
              "", "", "", view_type_default ? sdkm::AggregationType::kDefault : sdkm::AggregationType::kHistogram, hc)));
    }
    auto meter = mp->GetMeter("m");
    if (c.is_long)
      hl = meter->CreateUInt64Histogram("h");
    else
      hd = meter->CreateDoubleHistogram("h");
  }
  const char *name() const override { return "meter"; }
  void record(size_t set, const Val &v) override
  {
    opentelemetry::context::Context ctx;
    if (set == 0)
    {
      if (c.is_long)
        hl->Record(static_cast<uint64_t>(v.i), ctx);
      else
        hd->Record(v.d, ctx);
      return;
    }
    std::vector<std::pair<std::string, std::string>> kv = {{"k", set == 1 ? "a" : "b"}};
    opentelemetry::common::KeyValueIterableView<std::vector<std::pair<std::string, std::string>>> it(kv);
    if (c.is_long)
      hl->Record(static_cast<uint64_t>(v.i), it, ctx);
    else
      hd->Record(v.d, it, ctx);
  }
  bool collect(size_t r, Points &out, std::string &err) override
  {
    readers[r]->Collect([&](sdkm::ResourceMetrics &rm) {
      for (auto &sm : rm.scope_metric_data_)
        for (auto &md : sm.metric_data_)
          take_metric(md, temp[r], out, err);
      return true;
    });
    return err.empty();
  }
};

struct FakeCollector : sdkm::CollectorHandle
{
  sdkm::AggregationTemporality t;
  explicit FakeCollector(sdkm::AggregationTemporality tt) : t(tt) {}
  sdkm::AggregationTemporality GetAggregationTemporality(sdkm::InstrumentType) noexcept override { return t; }
};

struct TemporalBackend : Backend
{
  const Cfg &c;
  sdkm::HistogramAggregationConfig hc;
  const sdkm::AggregationConfig *cfgp;
  sdkm::InstrumentDescriptor desc;
  sdkm::TemporalMetricStorage tms;
  std::vector<std::shared_ptr<sdkm::CollectorHandle>> cols;
  std::vector<sdkm::AggregationTemporality> temp;
  std::shared_ptr<sdkm::AttributesHashMap> cur;
  opentelemetry::common::SystemTimestamp start;

  static sdkm::HistogramAggregationConfig mk(const Cfg &cfg)
  {
    sdkm::HistogramAggregationConfig h;
    h.boundaries_     = cfg.bounds;
    h.record_min_max_ = cfg.rmm;
    return h;
  }
  TemporalBackend(const Cfg &cfg, const std::vector<sdkm::AggregationTemporality> &t)
      : c(cfg),
        hc(mk(cfg)),
        cfgp(cfg.use_default ? nullptr : &hc),
        desc(descriptor(cfg)),
        tms(desc, sdkm::AggregationType::kHistogram, cfgp),
        temp(t),
        cur(new sdkm::AttributesHashMap),
        start(std::chrono::system_clock::now())
  {
    for (auto tt : t)
      cols.push_back(std::make_shared<FakeCollector>(tt));
  }
  const char *name() const override { return "temporal"; }
  void record(size_t set, const Val &v) override
  {
    sdkm::MetricAttributes a;
    if (set)
    {
      a.SetAttribute("k", set == 1 ? "a" : "b");
      a.UpdateHash();
    }
    auto *ag = cur->GetOrSetDefault(a, [this]() {
      return sdkm::DefaultAggregation::CreateAggregation(sdkm::AggregationType::kHistogram, desc, cfgp);
    });
    feed(*ag, c, v);
  }
  bool collect(size_t r, Points &out, std::string &err) override
  {
    std::shared_ptr<sdkm::AttributesHashMap> delta = std::move(cur);
    cur.reset(new sdkm::AttributesHashMap);
    tms.buildMetrics(cols[r].get(), nostd::span<std::shared_ptr<sdkm::CollectorHandle>>(cols.data(), cols.size()), start,
                     std::chrono::system_clock::now(), delta, [&](sdkm::MetricData md) {
                       take_metric(md, temp[r], out, err);
                       return true;
                     });
    return err.empty();
  }
};

struct Rec
{
  size_t set;
  Val v;
};

static void history_part(Rng &r, const Cfg &c, const std::vector<Val> &vals, size_t k, bool meter)
{
  auto &R        = vf::report();
  std::string it = c.is_long ? "long" : "double";
  // readers
  size_t nr;
  std::vector<sdkm::AggregationTemporality> temp;
  unsigned q = static_cast<unsigned>(r.below(100));
  if (q < 25)
  {
    nr = 1;
    temp.push_back(sdkm::AggregationTemporality::kDelta);
  }
  else if (q < 45)
  {
    nr = 1;
    temp.push_back(sdkm::AggregationTemporality::kCumulative);
  }
  else
  {
    nr = static_cast<size_t>(r.range(2, 3));
    for (size_t i = 0; i < nr; ++i)
      temp.push_back(r.coin() ? sdkm::AggregationTemporality::kDelta : sdkm::AggregationTemporality::kCumulative);
  }
  size_t nsets = static_cast<size_t>(r.range(1, 3));
  std::unique_ptr<Backend> be;
  if (meter)
    be.reset(new MeterBackend(c, temp, r.coin()));
  else
    be.reset(new TemporalBackend(c, temp));
  std::string bname = be->name();
  R.count(std::string("histories_") + bname);
  if (nr == 1 && temp[0] == sdkm::AggregationTemporality::kDelta)
    R.count("histories_single_delta_fastpath");
  if (nr >= 2)
    R.count("histories_multi_reader");

  // interval of each value (sequence order kept)
  std::vector<size_t> cuts;
  for (size_t j = 0; j + 1 < k; ++j)
    cuts.push_back(static_cast<size_t>(r.below(vals.size() + 1)));
  std::sort(cuts.begin(), cuts.end());

  std::vector<Rec> seq;                 // everything recorded so far
  std::vector<size_t> cursor(nr, 0);    // per reader: start of its delta window in seq
  std::vector<std::vector<std::unique_ptr<sdkm::Aggregation>>> remerge(nr);  // SDK-merged delta points per set
  for (auto &v : remerge)
    v.resize(3);
  std::vector<bool> remerge_ok(nr, true);

  auto window = [&](size_t from, size_t set) {
    std::vector<Val> w;
    for (size_t i = from; i < seq.size(); ++i)
      if (seq[i].set == set)
        w.push_back(seq[i].v);
    return w;
  };

  size_t pos = 0;
  for (size_t j = 0; j < k; ++j)
  {
    size_t end = j < cuts.size() ? cuts[j] : vals.size();
    for (; pos < end; ++pos)
    {
      Rec rec{static_cast<size_t>(r.below(nsets)), vals[pos]};
      be->record(rec.set, rec.v);
      seq.push_back(rec);
    }
    // who collects after this interval
    std::vector<size_t> who;
    for (size_t x = 0; x < nr; ++x)
      if (j + 1 == k || r.chance(3, 5))
        who.push_back(x);
    for (size_t x = who.size(); x > 1; --x)
      std::swap(who[x - 1], who[r.below(x)]);
    for (size_t x : who)
    {
      bool delta        = temp[x] == sdkm::AggregationTemporality::kDelta;
      std::string path  = bname + (delta ? "-delta" : "-cumulative");
      Points pts;
      std::string err;
      if (!be->collect(x, pts, err))
        R.violation("delivery", it + ":" + path, err);
      R.count("collects");
      std::set<std::string> seen;
      for (size_t s = 0; s < 3; ++s)
      {
        std::vector<Val> w = window(delta ? cursor[x] : 0, s);
        size_t found       = 0;
        const sdkm::HistogramPointData *pp = nullptr;
        for (auto &pt : pts)
          if (pt.first == kSetNames[s])
          {
            ++found;
            pp = &pt.second;
          }
        if (found > 1)
        {
          R.violation("one-point-per-set", it + ":" + path, "attribute set '" + std::string(kSetNames[s]) + "' reported " +
                                                                std::to_string(found) + " times");
          continue;
        }
        if (w.empty())
        {
          // nothing recorded for this set in the window: no point, or an all-zero point, both fine
          if (found)
          {
            R.count("empty_window_point_dontcare");
            if (pp->count_ != 0)
              R.violation("count", it + ":" + path + ":empty-window",
                          "point with count " + std::to_string(pp->count_) + " for a window without values | " + show_cfg(c));
          }
          continue;
        }
        if (!found)
        {
          R.violation("point-present", it + ":" + path,
                      "no point for set '" + std::string(kSetNames[s]) + "' with " + std::to_string(w.size()) +
                          " values in the window | " + show_cfg(c) + " values=" + show_vals(c, w));
          if (delta)
            remerge_ok[x] = false;
          continue;
        }
        bool ok = check_point(*pp, summarize(c, w), c, path, w);
        if (j > 0)
          R.count("points_after_first_interval");
        if (delta)
        {
          // recombine this reader's delta points with the SDK's own Merge
          std::unique_ptr<sdkm::Aggregation> a;
          if (ok)
          {
            if (c.is_long)
              a.reset(new sdkm::LongHistogramAggregation(*pp));
            else
              a.reset(new sdkm::DoubleHistogramAggregation(*pp));
          }
          else
            a = agg_of(r, c, w);  // continue from the model
          remerge[x][s] = remerge[x][s] ? remerge[x][s]->Merge(*a) : std::move(a);
        }
      }
      for (auto &pt : pts)
      {
        bool known = false;
        for (size_t s = 0; s < 3; ++s)
          known |= pt.first == kSetNames[s];
        if (!known)
          R.violation("unexpected-series", it + ":" + path, "point with attributes '" + vf::show(pt.first, 80) + "'");
      }
      cursor[x] = seq.size();
    }
  }
  // every delta reader has now seen everything: its recombined points equal the one-shot histogram
  for (size_t x = 0; x < nr; ++x)
  {
    if (temp[x] != sdkm::AggregationTemporality::kDelta || !remerge_ok[x])
      continue;
    for (size_t s = 0; s < 3; ++s)
    {
      std::vector<Val> w = window(0, s);
      if (w.empty() || !remerge[x][s])
        continue;
      sdkm::HistogramPointData p;
      if (point_of(*remerge[x][s], p))
        check_point(p, summarize(c, w), c, bname + "-remerge", w);
    }
  }
}

// ------------------------------------------------------------------------------------------
static void one_case(uint64_t seed)
{
  auto &R = vf::report();
  Rng r(seed);
  Cfg c;
  c.is_long = r.coin();
  gen_bounds(r, c);
  c.rmm = c.use_default ? true : r.chance(4, 5);
  ValueStats st;
  std::vector<Val> vals = gen_values(r, c, st);
  size_t k              = static_cast<size_t>(r.chance(1, 4) ? r.range(1, 2) : r.range(3, 6));

  R.count("cases");
  R.count(c.is_long ? "cases_long" : "cases_double");
  R.count("bounds_" + c.bclass);
  if (st.eq_boundary)
    R.count("cases_value_eq_boundary");
  if (st.neighbour)
    R.count("cases_nextafter_neighbour");
  if (st.all_zero)
    R.count("cases_all_zero");
  if (st.denormal)
    R.count("cases_denormal_value");
  if (st.huge)
    R.count("cases_huge_value");
  if (c.bounds.empty() && c.rmm && !vals.empty())
    R.count("cases_empty_bounds_minmax");
  if (!c.rmm)
    R.count("cases_minmax_disabled");
  Summary all = summarize(c, vals);
  if (c.is_long)
    R.count(all.beyond53 ? "cases_long_beyond53" : "cases_long_exact");
  else
    R.count(all.exact ? "cases_double_exact" : "cases_double_tolerance");
  R.maxi("max_values", vals.size());
  R.maxi("max_boundaries", c.bounds.size());

  direct_part(r, c, vals, k);
  history_part(r, c, vals, k, true);
  history_part(r, c, vals, k, false);

  if (!vals.empty())
  {
    uint64_t h = vf::mix(c.is_long, c.rmm * 2 + c.use_default);
    for (double b : c.bounds)
      h = vf::mix(h, vf::fnv1a(&b, sizeof b));
    for (auto &v : vals)
      h = vf::mix(h, c.is_long ? static_cast<uint64_t>(v.i) : vf::fnv1a(&v.d, sizeof v.d));
    R.nontrivial(vf::mix(h, k));
  }
  if (R.want_sample(6) && r.chance(1, 40))
    R.sample(show_cfg(c) + " k=" + std::to_string(k) + " values=" + show_vals(c, vals) + " -> buckets " +
             show_counts(all.counts));
}

int main(int argc, char **argv)
{
  auto &R = vf::report();
  R.init("C07", argc, argv);
  auto handler = nostd::shared_ptr<opentelemetry::sdk::common::internal_log::LogHandler>(new CountingLogHandler());
  opentelemetry::sdk::common::internal_log::GlobalLogHandler::SetLogHandler(handler);
  R.run_cases([&](uint64_t i) { one_case(R.case_seed(i)); });
  R.count("sdk_log_messages", static_cast<CountingLogHandler *>(handler.get())->n);
  return R.finish();
}
