// C20 — nostd vocabulary types behave like the std types they stand in for.
// Engine E1: every generated operation is applied in lock-step to the nostd type and to its std
// counterpart (std::string_view, an index-checked slice model for span, std::unique_ptr,
// std::shared_ptr, std::function over std::ref, std::variant) and the observable results are
// compared after every step; managed objects are instance-counted per universe.  ASan+UBSan+LSan
// build, all byte strings live in exact-size non-terminated heap buffers.  Calls that std leaves
// undefined (operator[] past the end, static-extent span with a wrong count, reset(get()),
// calling an empty function_ref) are never generated.  The variant program has a second part in
// which alternatives throw on demand from their copy / move operations: what [variant.assign],
// [variant.ctor] and [variant.mod] guarantee about the state after the exception is judged, what
// they leave open ("might not hold a value") is counted don't-care.
#include "opentelemetry/nostd/function_ref.h"
#include "opentelemetry/nostd/shared_ptr.h"
#include "opentelemetry/nostd/span.h"
#include "opentelemetry/nostd/string_view.h"
#include "opentelemetry/nostd/unique_ptr.h"
#include "opentelemetry/nostd/utility.h"
#include "opentelemetry/nostd/variant.h"

#include <array>
#include <functional>
#include <memory>
#include <sstream>
#include <stdexcept>
#include <string_view>
#include <variant>

#include <sys/wait.h>

#include "vf_core.h"

namespace nostd = opentelemetry::nostd;
using vf::Rng;

static int sign(int x)
{
  return (x > 0) - (x < 0);
}

// outcome of a call that may throw: 0 returned, 1 std::out_of_range, 2 anything else
template <class F, class T>
static int outcome(F &&f, T &result)
{
  try
  {
    result = f();
    return 0;
  }
  catch (const std::out_of_range &)
  {
    return 1;
  }
  catch (...)
  {
    return 2;
  }
}

// ==========================================================================================
// string_view
// ==========================================================================================
struct SvItem
{
  std::shared_ptr<vf::Buf> buf;  // exact-size storage (shared by sub-views)
  size_t off = 0, len = 0;
  bool null_view = false;  // default-constructed view
  nostd::string_view nv() const { return null_view ? nostd::string_view() : nostd::string_view(buf->data() + off, len); }
  std::string_view sv() const { return null_view ? std::string_view() : std::string_view(buf->data() + off, len); }
  std::string str() const { return null_view ? std::string() : std::string(buf->data() + off, len); }
};

static SvItem sv_item(const std::string &s)
{
  SvItem it;
  it.buf = std::make_shared<vf::Buf>(s);
  it.len = s.size();
  return it;
}

static std::string content_class(const std::string &a)
{
  if (a.empty())
    return "empty";
  bool high = false, nul = false;
  for (unsigned char c : a)
  {
    high |= c >= 0x80;
    nul |= c == 0;
  }
  return high ? "high-bytes" : (nul ? "embedded-nul" : "ascii");
}

// relation of two byte strings, the class for comparison assertions
static std::string relation_class(const std::string &a, const std::string &b)
{
  if (a == b)
    return a.empty() ? "both-empty" : "equal";
  size_t n = std::min(a.size(), b.size()), i = 0;
  while (i < n && a[i] == b[i])
    ++i;
  if (i == n)
    return "proper-prefix";
  unsigned char x = static_cast<unsigned char>(a[i]), y = static_cast<unsigned char>(b[i]);
  if ((x >= 0x80) != (y >= 0x80))
    return "differ-high-vs-low-byte";
  if (x == 0 || y == 0)
    return "differ-at-nul";
  return x >= 0x80 ? "differ-high-bytes" : "differ-ascii";
}

static std::string pos_class(size_t pos, size_t size)
{
  if (pos == std::string_view::npos)
    return "pos=npos";
  return pos < size ? "pos<size" : (pos == size ? "pos=size" : "pos>size");
}

static size_t gen_pos(Rng &r, size_t size)
{
  unsigned c = static_cast<unsigned>(r.below(100));
  if (c < 60)
    return static_cast<size_t>(r.below(size + 1));
  if (c < 75)
    return size;
  if (c < 85)
    return size + 1;
  if (c < 92)
    return size + 2;
  if (c < 96)
    return std::string_view::npos;
  return std::string_view::npos - static_cast<size_t>(r.below(3));
}
static size_t gen_count(Rng &r, size_t size)
{
  unsigned c = static_cast<unsigned>(r.below(100));
  if (c < 55)
    return static_cast<size_t>(r.below(size + 3));
  if (c < 75)
    return std::string_view::npos;
  if (c < 85)
    return 0;
  return std::string_view::npos - static_cast<size_t>(r.below(size + 2));
}

static void sv_program(uint64_t seed)
{
  auto &R = vf::report();
  Rng r(seed);
  static const std::string alpha = std::string("ab\0\x7f\x80\xff z", 9);
  // pool: a base string, prefixes, one-byte variations, extensions, empties, a null view
  std::vector<SvItem> pool;
  std::string base = r.bytes(static_cast<size_t>(r.range(0, 20)), alpha);
  pool.push_back(sv_item(base));
  pool.push_back(sv_item(base));  // equal content, different buffer
  pool.push_back(sv_item(""));
  {
    SvItem n;
    n.null_view = true;
    pool.push_back(n);
  }
  size_t extra = static_cast<size_t>(r.range(2, 8));
  for (size_t i = 0; i < extra; ++i)
  {
    std::string s = base;
    switch (r.below(6))
    {
      case 0:
        s = s.substr(0, r.below(s.size() + 1));
        break;
      case 1:
        if (!s.empty())
          s[r.below(s.size())] = alpha[r.below(alpha.size())];
        break;
      case 2:
        s += r.bytes(static_cast<size_t>(r.range(1, 3)), alpha);
        break;
      case 3:
        s = r.bytes(static_cast<size_t>(r.range(0, 12)), alpha);
        break;
      case 4:
        s = std::string(1, alpha[r.below(alpha.size())]);
        break;
      default:
        if (!s.empty())
          s.back() = static_cast<char>(s.back() ^ 0x80);  // same prefix, sign bit flipped
    }
    pool.push_back(sv_item(s));
  }
  size_t nops = static_cast<size_t>(r.range(5, 100));
  uint64_t h  = vf::fnv1a(base);
  for (size_t op = 0; op < nops; ++op)
  {
    const SvItem A = r.pick(pool), B = r.pick(pool);
    nostd::string_view na = A.nv(), nb = B.nv();
    std::string_view sa = A.sv(), sb = B.sv();
    std::string as = A.str(), bs = B.str();
    unsigned kind = static_cast<unsigned>(r.below(100));
    h             = vf::mix(h, kind);
    R.count("sv_ops");
    if (kind < 8)
    {
      // ---- observers
      VF_CHECK(na.size() == sa.size() && na.length() == sa.length() && na.empty() == sa.empty(), "sv-size", content_class(as),
               "size " + std::to_string(na.size()) + " want " + std::to_string(sa.size()));
      VF_CHECK(na.data() == sa.data() && na.begin() == sa.data() && na.end() == sa.data() + sa.size(), "sv-data",
               A.null_view ? "null-view" : "heap-view", "data/begin/end differ");
      if (!sa.empty())
      {
        size_t i = static_cast<size_t>(r.below(sa.size()));
        VF_CHECK(na[i] == sa[i] && &na[i] == &sa[i], "sv-index", content_class(as), "operator[] at " + std::to_string(i));
      }
      std::string conv = static_cast<std::string>(na);
      std::ostringstream os;
      os << na;
      VF_CHECK(conv == as && os.str() == as, "sv-convert", content_class(as), "string conversion / operator<< of " + vf::show(as));
    }
    else if (kind < 26)
    {
      // ---- substr
      size_t pos = gen_pos(r, sa.size()), n = gen_count(r, sa.size());
      nostd::string_view nr;
      std::string_view sr;
      int no = outcome([&] { return na.substr(pos, n); }, nr);
      int so = outcome([&] { return sa.substr(pos, n); }, sr);
      R.count(so ? "sv_substr_throws" : "sv_substr_returns");
      std::string cls = pos_class(pos, sa.size());
      if (no != so)
        R.violation("sv-substr-throws", cls,
                    "substr(" + std::to_string(pos) + "," + std::to_string(n) + ") on size " + std::to_string(sa.size()) +
                        (no == 0 ? " returned" : (no == 1 ? " threw out_of_range" : " threw something else")) + ", std " +
                        (so == 0 ? "returned" : "threw out_of_range"));
      else if (so == 0)
      {
        if (nr.data() != sr.data() || nr.size() != sr.size())
          R.violation("sv-substr", cls + (n == std::string_view::npos ? ",n=npos" : (n > sa.size() - pos ? ",n>rest" : ",n<=rest")),
                      "substr(" + std::to_string(pos) + "," + std::to_string(n) + ") on size " + std::to_string(sa.size()) +
                          " gave offset " + std::to_string(nr.data() - na.data()) + " size " + std::to_string(nr.size()) +
                          " want offset " + std::to_string(sr.data() - sa.data()) + " size " + std::to_string(sr.size()));
        else if (!A.null_view && pool.size() < 40)
        {
          SvItem sub = A;  // the sub-view joins the pool: later ops run on views into the middle of a buffer
          sub.off += pos;
          sub.len = sr.size();
          pool.push_back(sub);
        }
      }
    }
    else if (kind < 42)
    {
      // ---- compare(v), <, >
      int nc = na.compare(nb), sc = sa.compare(sb);
      R.count("sv_compare");
      std::string cls = relation_class(as, bs);
      if (cls == "differ-high-vs-low-byte")
        R.count("sv_compare_high_vs_low");
      if (cls == "proper-prefix")
        R.count("sv_compare_prefix");
      if (sign(nc) != sign(sc))
        R.violation("sv-compare", cls, "compare(" + vf::show(as) + "," + vf::show(bs) + ") gave " + std::to_string(nc) + " std " + std::to_string(sc));
      if ((na < nb) != (sa < sb) || (na > nb) != (sa > sb))
        R.violation("sv-less", cls, "operator< / > on " + vf::show(as) + " , " + vf::show(bs));
    }
    else if (kind < 54)
    {
      // ---- compare with positions (may throw)
      size_t p1 = gen_pos(r, sa.size()), c1 = gen_count(r, sa.size());
      size_t p2 = gen_pos(r, sb.size()), c2 = gen_count(r, sb.size());
      int nr = 0, sr = 0, no, so;
      bool five = r.coin();
      if (five)
      {
        no = outcome([&] { return na.compare(p1, c1, nb, p2, c2); }, nr);
        so = outcome([&] { return sa.compare(p1, c1, sb, p2, c2); }, sr);
      }
      else
      {
        no = outcome([&] { return na.compare(p1, c1, nb); }, nr);
        so = outcome([&] { return sa.compare(p1, c1, sb); }, sr);
      }
      R.count(so ? "sv_compare_pos_throws" : "sv_compare_pos_returns");
      // std throws exactly when a position lies beyond its view
      std::string cls = p1 > sa.size() ? "pos1>size" : (five && p2 > sb.size() ? "pos2>size" : "positions-in-range");
      if (no != so)
        R.violation("sv-compare-throws", cls,
                    "compare(" + std::to_string(p1) + "," + std::to_string(c1) + ",v" + (five ? "," + std::to_string(p2) + "," + std::to_string(c2) : "") +
                        ") sizes " + std::to_string(sa.size()) + "," + std::to_string(sb.size()) + ": nostd outcome " + std::to_string(no) +
                        " std outcome " + std::to_string(so));
      else if (so == 0 && sign(nr) != sign(sr))
        R.violation("sv-compare", relation_class(std::string(sa.substr(p1, c1)), std::string(five ? sb.substr(p2, c2) : sb)),
                    "compare(" + std::to_string(p1) + "," + std::to_string(c1) + "," + vf::show(bs) + (five ? "," + std::to_string(p2) + "," + std::to_string(c2) : "") +
                        ") on " + vf::show(as) + " gave " + std::to_string(nr) + " std " + std::to_string(sr));
    }
    else if (kind < 62)
    {
      // ---- the const char* overloads: the argument is a NUL-terminated copy (contract of both types)
      std::string z = bs;  // c_str() is terminated; strlen stops at an embedded NUL in both worlds
      size_t p1 = gen_pos(r, sa.size()), c1 = gen_count(r, sa.size());
      int nr = 0, sr = 0, no, so;
      size_t cstr_count = 0;
      unsigned which    = static_cast<unsigned>(r.below(3));
      if (which == 0)
      {
        no = outcome([&] { return na.compare(z.c_str()); }, nr);
        so = outcome([&] { return sa.compare(z.c_str()); }, sr);
      }
      else if (which == 1)
      {
        no = outcome([&] { return na.compare(p1, c1, z.c_str()); }, nr);
        so = outcome([&] { return sa.compare(p1, c1, z.c_str()); }, sr);
      }
      else
      {
        // s points to an array of at least count2 characters: an exact-size copy
        size_t c2 = static_cast<size_t>(r.below(bs.size() + 1));
        cstr_count = c2;
        vf::Buf zb(bs);
        no = outcome([&] { return na.compare(p1, c1, zb.data(), c2); }, nr);
        so = outcome([&] { return sa.compare(p1, c1, zb.data(), c2); }, sr);
      }
      R.count("sv_compare_cstr");
      if (no != so)
        R.violation("sv-compare-throws", p1 > sa.size() ? "pos1>size" : "positions-in-range",
                    "const char* overload " + std::to_string(which) + " outcome " + std::to_string(no) + " std " + std::to_string(so));
      else if (so == 0 && sign(nr) != sign(sr))
      {
        std::string lhs(which == 0 ? sa : sa.substr(p1, c1));
        std::string rhs = which == 2 ? bs.substr(0, cstr_count) : std::string(z.c_str());
        R.violation("sv-compare", relation_class(lhs, rhs),
                    "const char* overload " + std::to_string(which) + " on " + vf::show(as) + " vs " + vf::show(bs) + " gave " + std::to_string(nr) + " std " +
                        std::to_string(sr));
      }
      // construction from a C string and from std::string
      nostd::string_view fromz(z.c_str()), froms(z);
      std::string_view sz(z.c_str());
      VF_CHECK(fromz.size() == sz.size() && fromz.data() == sz.data() && froms.size() == z.size() && froms.data() == z.data(), "sv-ctor",
               content_class(bs), "construction from const char* / std::string of " + vf::show(bs));
    }
    else if (kind < 78)
    {
      // ---- find(char, pos)
      char ch    = r.chance(3, 4) && !as.empty() ? as[r.below(as.size())] : alpha[r.below(alpha.size())];
      bool dflt  = r.chance(1, 5);
      size_t pos = dflt ? 0 : gen_pos(r, sa.size());
      size_t nf = dflt ? na.find(ch) : na.find(ch, pos), sf = dflt ? sa.find(ch) : sa.find(ch, pos);
      R.count(sf == std::string_view::npos ? "sv_find_absent" : "sv_find_found");
      if (sf != std::string_view::npos && pos > 0)
        R.count("sv_find_found_from_nonzero_pos");
      if (nf != sf)
        R.violation("sv-find", std::string(sf == std::string_view::npos ? "absent," : "found,") + pos_class(pos, sa.size()),
                    "find(" + vf::show(std::string(1, ch)) + "," + std::to_string(pos) + ") on " + vf::show(as) + " gave " + std::to_string(nf) + " std " +
                        std::to_string(sf));
    }
    else if (kind < 90)
    {
      // ---- equality in all spellings
      bool se = sa == sb;
      R.count(se ? "sv_equal_true" : "sv_equal_false");
      std::string cls = relation_class(as, bs);
      bool ok = (na == nb) == se && (na != nb) == !se && (na == bs) == se && (as == nb) == se && (na != bs) == !se && (as != nb) == !se;
      // the const char* spellings compare against strlen(rhs)
      std::string_view zb(bs.c_str()), za(as.c_str());
      ok = ok && (na == bs.c_str()) == (sa == zb) && (as.c_str() == nb) == (za == sb) && (na != bs.c_str()) == (sa != zb) &&
           (as.c_str() != nb) == (za != sb);
      if (!ok)
        R.violation("sv-equal", cls, "== / != on " + vf::show(as) + " , " + vf::show(bs));
    }
    else
    {
      // ---- hash: equal views hash equal wherever their bytes live
      vf::Buf copy(as);
      nostd::string_view nc(copy.data(), copy.size());
      std::hash<nostd::string_view> hn;
      R.count("sv_hash");
      if (hn(na) != hn(nc))
        R.violation("sv-hash", "equal-content-other-buffer", "hash differs for equal views of " + vf::show(as));
      if (sa == sb && hn(na) != hn(nb))
        R.violation("sv-hash", "equal-views", "hash differs for equal views of " + vf::show(as));
      if (hn(na) == std::hash<std::string_view>{}(sa))
        R.count("sv_hash_same_as_std");
      if (sa != sb && hn(na) != hn(nb))
        R.count("sv_hash_distinguishes");
    }
  }
  R.nontrivial(vf::mix(h, 1));
  if (R.want_sample(2))
    R.sample("string_view program over base " + vf::show(base, 60) + ", " + std::to_string(pool.size()) + " views, " + std::to_string(nops) + " ops");
}

// ==========================================================================================
// span  (slice model: storage id + offset + length, every access index-checked)
// ==========================================================================================
struct Slice
{
  std::shared_ptr<std::vector<int>> store;  // heap storage of exactly that many elements
  size_t off = 0, len = 0;
  int at(size_t i) const
  {
    if (i >= len)
      abort();  // the generator never leaves the slice
    return store->at(off + i);
  }
  int *ptr() const { return store->data() + off; }
};

template <class S>
static bool span_check(const S &s, const Slice &m, const char *how)
{
  auto &R = vf::report();
  R.count("span_views_checked");
  if (s.size() != m.len || s.empty() != (m.len == 0))
  {
    R.violation("span-size", how, "size " + std::to_string(s.size()) + " want " + std::to_string(m.len));
    return false;
  }
  if (m.len && s.data() != m.ptr())
  {
    R.violation("span-data", how, "data() is not the start of the slice");
    return false;
  }
  if (s.end() - s.begin() != static_cast<std::ptrdiff_t>(m.len) || (m.len && s.begin() != m.ptr()))
  {
    R.violation("span-iter", how, "begin/end distance " + std::to_string(s.end() - s.begin()) + " want " + std::to_string(m.len));
    return false;
  }
  size_t i = 0;
  for (auto &e : s)
  {
    if (e != m.at(i) || &e != m.ptr() + i || s[i] != m.at(i) || &s[i] != m.ptr() + i)
    {
      R.violation("span-element", how, "element " + std::to_string(i) + " of " + std::to_string(m.len));
      return false;
    }
    ++i;
  }
  if (i != m.len)
  {
    R.violation("span-iter", how, "range-for visited " + std::to_string(i) + " of " + std::to_string(m.len));
    return false;
  }
  return true;
}

template <size_t N>
static void span_static(Rng &r)
{
  auto &R = vf::report();
  // static extents: C array, std::array (const and not), pointer+count with the right count,
  // first/last, container of the right size, conversion to const and to dynamic extent
  auto store = std::make_shared<std::vector<int>>(N);
  for (auto &v : *store)
    v = static_cast<int>(r.below(1000));
  Slice m{store, 0, N};
  nostd::span<int, N> a(store->data(), N);
  if (!span_check(a, m, "static:ptr-count"))
    return;
  nostd::span<int, N> b(store->data(), store->data() + N);
  if (!span_check(b, m, "static:first-last"))
    return;
  nostd::span<const int, N> c(a);
  if (!span_check(c, m, "static:to-const"))
    return;
  nostd::span<int> d(a);
  if (!span_check(d, m, "static:to-dynamic"))
    return;
  nostd::span<const int> e(c);
  if (!span_check(e, m, "static:const-to-dynamic"))
    return;
  nostd::span<int, N> f(*store);
  if (!span_check(f, m, "static:container"))
    return;
  std::array<int, N> arr;
  int raw[N ? N : 1];
  for (size_t i = 0; i < N; ++i)
    arr[i] = raw[i] = store->at(i);
  auto as = std::make_shared<std::vector<int>>(arr.begin(), arr.end());
  {
    nostd::span<int, N> g(arr);
    const std::array<int, N> &carr = arr;
    nostd::span<const int, N> hh(carr);
    VF_CHECK(g.size() == N && g.data() == arr.data() && hh.size() == N && hh.data() == arr.data(), "span-ctor", "static:std-array",
             "span over std::array<" + std::to_string(N) + ">");
    for (size_t i = 0; i < N; ++i)
      VF_CHECK(g[i] == as->at(i) && hh[i] == as->at(i), "span-element", "static:std-array", "element " + std::to_string(i));
  }
  static_assert(nostd::span<int, N>::extent == N, "extent");
  R.count("span_static_extents");
  if (N > 0)
  {
    // writes go through to the storage
    size_t i = static_cast<size_t>(r.below(N));
    a[i]     = 4242;
    VF_CHECK(store->at(i) == 4242 && c[i] == 4242 && d[i] == 4242, "span-element", "static:write-through", "write through span");
    f = a;  // assignment
    span_check(f, m, "static:assign");
  }
}

static void span_program(uint64_t seed)
{
  auto &R = vf::report();
  Rng r(seed);
  size_t n   = static_cast<size_t>(r.chance(1, 6) ? 0 : r.range(1, 24));
  auto store = std::make_shared<std::vector<int>>(n);
  store->shrink_to_fit();
  for (auto &v : *store)
    v = static_cast<int>(r.below(100000));
  std::vector<std::pair<nostd::span<int>, Slice>> views;
  views.emplace_back(nostd::span<int>(*store), Slice{store, 0, n});
  if (!span_check(views[0].first, views[0].second, "dynamic:container"))
    return;
  {
    nostd::span<int> dflt;
    VF_CHECK(dflt.size() == 0 && dflt.empty() && dflt.data() == nullptr && dflt.begin() == dflt.end(), "span-ctor", "dynamic:default",
             "default-constructed span");
    const std::vector<int> &cv = *store;
    nostd::span<const int> cs(cv);
    span_check(cs, views[0].second, "dynamic:const-container");
    VF_CHECK(nostd::size(*store) == store->size() && nostd::data(*store) == store->data(), "utility-data-size", "vector", "nostd::data/size");
    int raw[5] = {1, 2, 3, 4, 5};
    VF_CHECK(nostd::size(raw) == 5 && nostd::data(raw) == raw, "utility-data-size", "c-array", "nostd::data/size");
    nostd::span<int> rs(raw);
    VF_CHECK(rs.size() == 5 && rs.data() == raw && rs[4] == 5, "span-ctor", "dynamic:c-array", "span over int[5]");
    static_assert(nostd::span<int>::extent == nostd::dynamic_extent, "extent");
    static_assert(std::is_same<nostd::make_index_sequence<3>, nostd::index_sequence<0, 1, 2>>::value, "make_index_sequence");
  }
  size_t nops = static_cast<size_t>(r.range(3, 60));
  uint64_t h  = n;
  for (size_t op = 0; op < nops; ++op)
  {
    size_t vi   = static_cast<size_t>(r.below(views.size()));
    auto cur    = views[vi];
    Slice &m    = cur.second;
    unsigned kind = static_cast<unsigned>(r.below(100));
    h           = vf::mix(h, kind);
    R.count("span_ops");
    if (kind < 35)
    {
      // a sub-view built from pointer + count or first/last (the in-contract way to slice)
      size_t off = static_cast<size_t>(r.below(m.len + 1)), cnt = static_cast<size_t>(r.below(m.len - off + 1));
      if (r.chance(1, 5))
        cnt = m.len - off;  // up to the very end
      Slice sm{m.store, m.off + off, cnt};
      nostd::span<int> s = r.coin() ? nostd::span<int>(cur.first.data() + off, cnt)
                                    : nostd::span<int>(cur.first.data() + off, cur.first.data() + off + cnt);
      if (!span_check(s, sm, "dynamic:sub-view"))
        continue;  // go on from the model: the wrong view does not join the pool
      if (cnt == 0)
        R.count("span_empty_subviews");
      if (m.off + off + cnt == m.store->size())
        R.count("span_views_touching_end");
      if (views.size() < 24)
        views.emplace_back(s, sm);
    }
    else if (kind < 50)
    {
      nostd::span<int> copy(cur.first);
      span_check(copy, m, "dynamic:copy");
      nostd::span<int> assigned;
      assigned = cur.first;
      span_check(assigned, m, "dynamic:assign");
      nostd::span<const int> cs(cur.first);
      span_check(cs, m, "dynamic:to-const");
      nostd::span<const int> cs2(cs);
      span_check(cs2, m, "dynamic:const-copy");
    }
    else if (kind < 70)
    {
      if (m.len)
      {
        size_t i       = static_cast<size_t>(r.below(m.len));
        int v          = static_cast<int>(r.below(100000));
        cur.first[i]   = v;  // write through the span, read through the storage
        VF_CHECK(m.at(i) == v, "span-element", "dynamic:write-through", "write at " + std::to_string(i));
        *(cur.first.begin() + static_cast<long>(i)) = v + 1;
        VF_CHECK(m.at(i) == v + 1, "span-element", "dynamic:write-through-iterator", "write at " + std::to_string(i));
      }
    }
    else if (kind < 85)
    {
      // every view still describes its slice (writes above are visible through all of them)
      for (auto &v : views)
        span_check(v.first, v.second, "dynamic:recheck");
    }
    else
    {
      switch (r.below(6))
      {
        case 0:
          span_static<0>(r);
          break;
        case 1:
          span_static<1>(r);
          break;
        case 2:
          span_static<2>(r);
          break;
        case 3:
          span_static<3>(r);
          break;
        case 4:
          span_static<7>(r);
          break;
        default:
          span_static<16>(r);
      }
    }
  }
  R.nontrivial(vf::mix(h, 2));
}

// ==========================================================================================
// counted payloads
// ==========================================================================================
struct Obj
{
  static int live[2];
  static int over_destroyed;
  static int cur_universe;  // universe of default-constructed (array) elements
  int universe, id;
  unsigned magic = 0x600D600Du;
  Obj() : universe(cur_universe), id(0) { ++live[universe]; }
  Obj(int u, int i) : universe(u), id(i) { ++live[u]; }
  Obj(const Obj &)            = delete;
  Obj &operator=(const Obj &) = delete;
  virtual ~Obj()
  {
    if (magic != 0x600D600Du)
      ++over_destroyed;
    magic = 0xDEADDEADu;
    --live[universe];
  }
  virtual int kind() const { return 0; }
};
int Obj::live[2]        = {0, 0};
int Obj::over_destroyed = 0;
int Obj::cur_universe   = 0;

struct Derived : Obj
{
  int extra;
  Derived(int u, int i) : Obj(u, i), extra(i * 7) {}
  int kind() const override { return 1; }
};

static Obj *mk(int universe, int id, bool derived)
{
  return derived ? new Derived(universe, id) : new Obj(universe, id);
}

// what can be observed of a handle: 0 = empty, else id and dynamic type
template <class P>
static long observe(const P &p)
{
  if (!p)
    return 0;
  return static_cast<long>(p->id) * 4 + p->kind() * 2 + 1;
}

// ==========================================================================================
// unique_ptr
// ==========================================================================================
static void uptr_program(uint64_t seed)
{
  auto &R = vf::report();
  Rng r(seed);
  constexpr size_t N = 8;
  size_t used        = static_cast<size_t>(r.range(2, N));
  int live0[2]       = {Obj::live[0], Obj::live[1]};
  {
    nostd::unique_ptr<Obj> a[N];
    std::unique_ptr<Obj> b[N];
    int next_id = 1;
    uint64_t h  = used;
    std::string trace;
    auto check = [&](const std::string &op) {
      bool recovered = false;
      for (size_t i = 0; i < N; ++i)
      {
        if (observe(a[i]) != observe(b[i]) || (a[i].get() == nullptr) != (b[i].get() == nullptr) ||
            static_cast<bool>(a[i]) != static_cast<bool>(b[i]))
        {
          R.violation("uptr-observers", op,
                      "after " + trace + ": handle " + std::to_string(i) + " observes " + std::to_string(observe(a[i])) + " std " +
                          std::to_string(observe(b[i])));
          // go on from the model's state; whatever the handle held is given up, not destroyed (it may be owned twice)
          (void)a[i].release();
          a[i].reset(b[i] ? mk(0, b[i]->id, b[i]->kind() == 1) : nullptr);
          recovered = true;
        }
        if (a[i] && a[i]->universe != 0)
          R.violation("uptr-observers", op, "handle points into the other universe");
      }
      int d0 = Obj::live[0] - live0[0], d1 = Obj::live[1] - live0[1];
      if (d0 != d1)
      {
        if (!recovered)
          R.violation("uptr-live-count", d0 > d1 ? "object-outlives-its-owner" : "object-destroyed-while-owned",
                      "after " + trace + ": live objects " + std::to_string(d0) + " std " + std::to_string(d1));
        live0[0] = Obj::live[0] - d1;  // re-base so one defect is reported once
      }
      if (Obj::over_destroyed)
      {
        R.violation("uptr-destroyed-once", op, "an object was destroyed twice");
        Obj::over_destroyed = 0;
      }
    };
    size_t nops = static_cast<size_t>(r.range(5, 100));
    for (size_t op = 0; op < nops; ++op)
    {
      size_t i = static_cast<size_t>(r.below(used)), j = static_cast<size_t>(r.below(used));
      unsigned kind = static_cast<unsigned>(r.below(100));
      h             = vf::mix(h, kind * 64 + i * 8 + j);
      std::string opn;
      R.count("uptr_ops");
      if (kind < 16)
      {
        int id   = next_id++;
        bool der = r.coin();
        opn      = "reset-new";
        if (r.coin())
        {
          a[i].reset(mk(0, id, der));
          b[i].reset(mk(1, id, der));
        }
        else
        {
          opn  = "construct-move-assign";
          a[i] = nostd::unique_ptr<Obj>(mk(0, id, der));
          b[i] = std::unique_ptr<Obj>(mk(1, id, der));
        }
      }
      else if (kind < 24)
      {
        switch (r.below(3))
        {
          case 0:
            opn = "reset-empty";
            a[i].reset();
            b[i].reset();
            break;
          case 1:
            opn = "reset-nullptr";
            a[i].reset(nullptr);
            b[i].reset(nullptr);
            break;
          default:
            opn  = "assign-nullptr";
            a[i] = nullptr;
            b[i] = nullptr;
        }
      }
      else if (kind < 34)
      {
        opn     = "release";
        Obj *pa = a[i].release(), *pb = b[i].release();
        if ((pa == nullptr) != (pb == nullptr) || (pa && pa->id != pb->id))
          R.violation("uptr-release", "result", "release() returned " + std::string(pa ? "object" : "null") + " std " + (pb ? "object" : "null"));
        VF_CHECK(!a[i] && a[i].get() == nullptr, "uptr-release", "empties-source", "handle still owns after release()");
        if (r.coin())
        {
          delete pa;
          delete pb;
        }
        else
        {
          opn = "release-adopt";
          a[j].reset(pa);
          b[j].reset(pb);
        }
      }
      else if (kind < 48)
      {
        opn  = i == j ? "move-assign-self" : "move-assign";
        a[j] = std::move(a[i]);
        b[j] = std::move(b[i]);
        if (i == j)
          R.count("uptr_self_move_assign");
      }
      else if (kind < 56)
      {
        opn = "move-construct";
        nostd::unique_ptr<Obj> t(std::move(a[i]));
        std::unique_ptr<Obj> u(std::move(b[i]));
        VF_CHECK(observe(t) == observe(u) && !a[i], "uptr-observers", opn, "move-constructed handle");
        if (r.coin())
        {
          a[j] = std::move(t);
          b[j] = std::move(u);
        }
      }
      else if (kind < 66)
      {
        opn = i == j ? "swap-self" : "swap";
        if (r.coin())
        {
          a[i].swap(a[j]);
          b[i].swap(b[j]);
        }
        else
        {
          opn += "-std-swap";
          std::swap(a[i], a[j]);
          std::swap(b[i], b[j]);
        }
      }
      else if (kind < 76)
      {
        int id = next_id++;
        nostd::unique_ptr<Derived> d(new Derived(0, id));
        std::unique_ptr<Derived> e(new Derived(1, id));
        if (r.coin())
        {
          opn  = "convert-derived-assign";
          a[i] = std::move(d);
          b[i] = std::move(e);
        }
        else
        {
          opn = "convert-derived-construct";
          nostd::unique_ptr<Obj> t(std::move(d));
          std::unique_ptr<Obj> u(std::move(e));
          a[i] = std::move(t);
          b[i] = std::move(u);
        }
        VF_CHECK(!d && d.get() == nullptr, "uptr-observers", opn, "derived source still owns");
        R.count("uptr_convert_derived");
      }
      else if (kind < 84)
      {
        int id   = next_id++;
        bool der = r.coin();
        if (der)
        {
          std::unique_ptr<Derived> s(new Derived(0, id));
          if (r.coin())
          {
            opn  = "from-std-derived-assign";
            a[i] = std::move(s);
          }
          else
          {
            opn  = "from-std-derived-construct";
            a[i] = nostd::unique_ptr<Obj>(std::move(s));
          }
          VF_CHECK(!s, "uptr-observers", opn, "std source still owns");
        }
        else
        {
          std::unique_ptr<Obj> s(new Obj(0, id));
          if (r.coin())
          {
            opn  = "from-std-assign";
            a[i] = std::move(s);
          }
          else
          {
            opn  = "from-std-construct";
            a[i] = nostd::unique_ptr<Obj>(std::move(s));
          }
          VF_CHECK(!s, "uptr-observers", opn, "std source still owns");
        }
        b[i] = std::unique_ptr<Obj>(mk(1, id, der));
      }
      else if (kind < 90)
      {
        opn                    = "to-std";
        std::unique_ptr<Obj> s = std::move(a[i]);  // rvalue conversion operator
        std::unique_ptr<Obj> t = std::move(b[i]);
        VF_CHECK(observe(s) == observe(t) && !a[i], "uptr-observers", opn, "conversion to std::unique_ptr");
        if (r.coin())
        {
          a[j] = std::move(s);
          b[j] = std::move(t);
        }
      }
      else if (kind < 96)
      {
        opn     = "compare";
        bool ok = (a[i] == a[j]) == (b[i] == b[j]) && (a[i] != a[j]) == (b[i] != b[j]) && (a[i] == nullptr) == (b[i] == nullptr) &&
                  (nullptr == a[i]) == (nullptr == b[i]) && (a[i] != nullptr) == (b[i] != nullptr) && (nullptr != a[i]) == (nullptr != b[i]);
        VF_CHECK(ok, "uptr-compare", i == j ? "same-handle" : "two-handles", "comparison operators");
        if (b[i] && a[i])
          VF_CHECK((*a[i]).id == (*b[i]).id && a[i]->id == b[i]->id && a[i].get()->kind() == b[i].get()->kind(), "uptr-observers", "deref",
                   "operator* / operator->");
      }
      else
      {
        // ---- array form
        opn       = "array";
        size_t n  = static_cast<size_t>(r.range(0, 5));
        Obj::cur_universe = 0;
        nostd::unique_ptr<Obj[]> x(new Obj[n]);
        Obj::cur_universe = 1;
        std::unique_ptr<Obj[]> y(new Obj[n]);
        for (size_t k = 0; k < n; ++k)
          x.get()[k].id = y.get()[k].id = static_cast<int>(k + 100);
        VF_CHECK(Obj::live[0] - live0[0] == Obj::live[1] - live0[1], "uptr-live-count", "array-elements-constructed", "array of " + std::to_string(n));
        switch (r.below(4))
        {
          case 0:
            x.reset();
            y.reset();
            opn = "array-reset";
            break;
          case 1:
          {
            nostd::unique_ptr<Obj[]> x2(std::move(x));
            std::unique_ptr<Obj[]> y2(std::move(y));
            VF_CHECK(!x && (x2.get() != nullptr), "uptr-observers", "array-move", "moved array handle");
            opn = "array-move";
            break;
          }
          case 2:
          {
            Obj *px = x.release(), *py = y.release();
            delete[] px;
            delete[] py;
            opn = "array-release";
            break;
          }
          default:
            opn = "array-scope-exit";
        }
        R.count("uptr_array_ops");
      }
      if (trace.size() > 160)
        trace = "..." + trace.substr(trace.size() - 120);
      trace += opn + "(" + std::to_string(i) + "," + std::to_string(j) + ") ";
      check(opn);
    }
    R.nontrivial(vf::mix(h, 3));
  }
  // everything went out of scope: both universes are back where they started
  if (Obj::live[0] != live0[0] || Obj::live[1] != live0[1])
  {
    R.violation("uptr-live-count", Obj::live[0] - live0[0] > Obj::live[1] - live0[1] ? "object-outlives-its-owner" : "object-destroyed-while-owned",
                "at scope exit: objects left alive: " + std::to_string(Obj::live[0] - live0[0]) + " std " + std::to_string(Obj::live[1] - live0[1]));
    Obj::live[0] = Obj::live[1] = 0;
  }
}

// ==========================================================================================
// shared_ptr
// ==========================================================================================
// self-assignment is run in a forked child: a defect there corrupts the heap, and the parent only
// needs the verdict.  Returns 0 when the child saw std's behaviour (handle and object unchanged,
// exactly one destruction at the end).
static int sptr_self_assign_probe(bool move, bool shared)
{
  fflush(nullptr);
  pid_t pid = fork();
  if (pid < 0)
    return -1;
  if (pid == 0)
  {
    int devnull = open("/dev/null", O_WRONLY);
    if (devnull >= 0)
    {
      dup2(devnull, 2);
      dup2(devnull, 1);
    }
    int base = Obj::live[0];
    {
      nostd::shared_ptr<Obj> a(new Obj(0, 77));
      nostd::shared_ptr<Obj> other;
      if (shared)
        other = a;
      nostd::shared_ptr<Obj> &alias = a;
      if (move)
        a = std::move(alias);
      else
        a = alias;
      if (!a || Obj::live[0] != base + 1 || a->id != 77)
        _exit(3);
      other = nullptr;
      if (!a || Obj::live[0] != base + 1 || a->id != 77 || a->magic != 0x600D600Du)
        _exit(4);
    }
    if (Obj::live[0] != base || Obj::over_destroyed)
      _exit(5);
    _exit(0);
  }
  int st = 0;
  while (waitpid(pid, &st, 0) < 0 && errno == EINTR)
  {}
  if (WIFEXITED(st))
    return WEXITSTATUS(st);
  return 1000 + (WIFSIGNALED(st) ? WTERMSIG(st) : 0);
}

static void sptr_program(uint64_t seed)
{
  auto &R = vf::report();
  Rng r(seed);
  constexpr size_t N = 8;
  size_t used        = static_cast<size_t>(r.range(2, N));
  int live0[2]       = {Obj::live[0], Obj::live[1]};
  {
    // objects that aliasing handles point at: they outlive every handle of the program
    std::vector<std::pair<std::shared_ptr<Obj>, std::shared_ptr<Obj>>> targets;
    nostd::shared_ptr<Obj> a[N];
    std::shared_ptr<Obj> b[N];
    // owners outside the handles: std::shared_ptr copies handed in, Derived-typed handles
    std::vector<std::pair<std::shared_ptr<Obj>, std::shared_ptr<Obj>>> ext;
    std::vector<std::pair<nostd::shared_ptr<Derived>, std::shared_ptr<Derived>>> dext;
    int next_id = 1;
    uint64_t h  = used + 100;
    std::string trace;
    auto check = [&](const std::string &op) {
      bool recovered = false;
      for (size_t i = 0; i < N; ++i)
      {
        if (observe(a[i]) != observe(b[i]) || (a[i].get() == nullptr) != (b[i].get() == nullptr) ||
            static_cast<bool>(a[i]) != static_cast<bool>(b[i]))
        {
          R.violation("sptr-observers", op,
                      "after " + trace + ": handle " + std::to_string(i) + " observes " + std::to_string(observe(a[i])) + " std " +
                          std::to_string(observe(b[i])));
          // go on from a state both sides can agree on
          a[i]      = nostd::shared_ptr<Obj>();
          b[i]      = std::shared_ptr<Obj>();
          recovered = true;
        }
      }
      // identity structure: which handles share an object
      for (size_t i = 0; i < used && !recovered; ++i)
        for (size_t j = i + 1; j < used; ++j)
          if ((a[i] == a[j]) != (b[i] == b[j]) || (a[i] != a[j]) != (b[i] != b[j]))
          {
            R.violation("sptr-identity", op, "after " + trace + ": handles " + std::to_string(i) + "," + std::to_string(j) + " share differently from std");
            a[j]      = nostd::shared_ptr<Obj>();
            b[j]      = std::shared_ptr<Obj>();
            recovered = true;
          }
      int d0 = Obj::live[0] - live0[0], d1 = Obj::live[1] - live0[1];
      if (d0 != d1)
      {
        // a lost reference shows when std destroys the object, possibly many operations later: the
        // class says which way the count is off, the witness names the operation history
        if (!recovered)
          R.violation("sptr-live-count", d0 > d1 ? "object-outlives-its-owners" : "object-destroyed-while-owned",
                      "after " + trace + ": live objects " + std::to_string(d0) + " std " + std::to_string(d1));
        live0[0] = Obj::live[0] - d1;  // re-base so one defect is reported once
      }
      if (Obj::over_destroyed)
      {
        R.violation("sptr-destroyed-once", op, "an object was destroyed twice");
        Obj::over_destroyed = 0;
      }
    };
    size_t nops = static_cast<size_t>(r.range(5, 100));
    for (size_t op = 0; op < nops; ++op)
    {
      size_t i = static_cast<size_t>(r.below(used)), j = static_cast<size_t>(r.below(used));
      unsigned kind = static_cast<unsigned>(r.below(100));
      h             = vf::mix(h, kind * 64 + i * 8 + j);
      std::string opn;
      R.count("sptr_ops");
      if (kind >= 97 && i != j)
      {
        // Two handles with the SAME stored pointer but DIFFERENT owners (built from std::shared_ptr aliasing
        // constructors - the only way in), then one is copy-assigned to the other: the target must drop its old
        // owner and co-own the source's, exactly like std::shared_ptr (from seeded change C20-w6-2)
        int idt = next_id++, id1 = next_id++, id2 = next_id++;
        targets.emplace_back(std::shared_ptr<Obj>(mk(0, idt, false)), std::shared_ptr<Obj>(mk(1, idt, false)));
        Obj *tn = targets.back().first.get(), *ts = targets.back().second.get();
        {
          std::shared_ptr<Obj> o1n(mk(0, id1, false)), o2n(mk(0, id2, false)), o1s(mk(1, id1, false)), o2s(mk(1, id2, false));
          a[i] = nostd::shared_ptr<Obj>(std::shared_ptr<Obj>(o1n, tn));
          b[i] = std::shared_ptr<Obj>(o1s, ts);
          a[j] = nostd::shared_ptr<Obj>(std::shared_ptr<Obj>(o2n, tn));
          b[j] = std::shared_ptr<Obj>(o2s, ts);
        }
        trace += " alias-pair(" + std::to_string(i) + "," + std::to_string(j) + ")";
        check("aliasing-owners");
        opn  = "copy-assign-same-pointer-other-owner";
        a[i] = a[j];
        b[i] = b[j];
        R.count("sptr_alias_pair_assignments");
      }
      else if (kind < 12)
      {
        int id   = next_id++;
        bool der = r.coin();
        opn      = "construct-from-pointer";
        a[i]     = nostd::shared_ptr<Obj>(mk(0, id, der));
        b[i]     = std::shared_ptr<Obj>(mk(1, id, der));
      }
      else if (kind < 20)
      {
        // from a std::shared_ptr, which may stay alive outside
        int id                 = next_id++;
        std::shared_ptr<Obj> s0 = std::make_shared<Derived>(0, id), s1 = std::make_shared<Derived>(1, id);
        opn                    = "from-std-shared";
        a[i]                   = nostd::shared_ptr<Obj>(s0);
        b[i]                   = s1;
        if (r.coin())
        {
          opn += "-kept-outside";
          ext.emplace_back(s0, s1);
        }
      }
      else if (kind < 36)
      {
        if (i == j)
        {
          // a = a is valid for std::shared_ptr (no effect); probed in a child process
          bool move = r.coin(), shared = r.coin();
          opn      = std::string(move ? "self-move-assign" : "self-copy-assign") + (shared ? "-shared" : "-sole-owner");
          if (r.chance(1, 60))  // a fork under ASan costs milliseconds
          {
            int rc = sptr_self_assign_probe(move, shared);
            R.count(rc < 0 ? "sptr_self_assign_probe_fork_failed" : "sptr_self_assign_probes");  // no child, no verdict
            if (rc > 0)
              R.violation("sptr-self-assign", opn.substr(5),
                          "a = " + std::string(move ? "std::move(a)" : "a") + (shared ? " with a second owner" : " as sole owner") +
                              ": std::shared_ptr is unchanged, nostd::shared_ptr child verdict " + std::to_string(rc) +
                              " (3/4 = object destroyed or handle emptied, 5 = wrong destruction count, other = sanitizer abort/signal)");
          }
        }
        else if (r.coin())
        {
          opn  = "copy-assign";
          a[j] = a[i];
          b[j] = b[i];
          if (b[i])
            R.count("sptr_copies_of_owner");
        }
        else
        {
          opn = "copy-construct";
          nostd::shared_ptr<Obj> t(a[i]);
          std::shared_ptr<Obj> u(b[i]);
          VF_CHECK(observe(t) == observe(u) && (t == a[i]), "sptr-observers", opn, "copy-constructed handle");
          if (r.coin())
          {
            a[j] = t;
            b[j] = u;
          }
        }
      }
      else if (kind < 52)
      {
        if (i == j)
          j = (j + 1) % used;
        if (r.coin())
        {
          opn  = "move-assign";
          a[j] = std::move(a[i]);
          b[j] = std::move(b[i]);
        }
        else
        {
          opn = "move-construct";
          nostd::shared_ptr<Obj> t(std::move(a[i]));
          std::shared_ptr<Obj> u(std::move(b[i]));
          VF_CHECK(observe(t) == observe(u) && !a[i] && a[i].get() == nullptr, "sptr-observers", opn, "move-constructed handle / emptied source");
          if (r.coin())
          {
            a[j] = std::move(t);
            b[j] = std::move(u);
          }
        }
        if (b[j])
          R.count("sptr_moves_of_owner");
      }
      else if (kind < 60)
      {
        opn  = "assign-nullptr";
        a[i] = nullptr;
        b[i] = nullptr;
      }
      else if (kind < 70)
      {
        opn = i == j ? "swap-self" : "swap";
        a[i].swap(a[j]);
        b[i].swap(b[j]);
      }
      else if (kind < 78)
      {
        int id = next_id++;
        if (r.coin())
        {
          opn = "from-nostd-unique";
          nostd::unique_ptr<Obj> u0(new Obj(0, id));
          a[i] = nostd::shared_ptr<Obj>(std::move(u0));
          VF_CHECK(!u0, "sptr-observers", opn, "unique source still owns");
        }
        else
        {
          opn = "from-std-unique";
          std::unique_ptr<Obj> u0(new Obj(0, id));
          a[i] = nostd::shared_ptr<Obj>(std::move(u0));
          VF_CHECK(!u0, "sptr-observers", opn, "unique source still owns");
        }
        b[i] = std::shared_ptr<Obj>(std::unique_ptr<Obj>(new Obj(1, id)));
      }
      else if (kind < 88)
      {
        // Derived -> Base conversion (move), optionally with a Derived-typed co-owner left behind
        int id = next_id++;
        nostd::shared_ptr<Derived> d(new Derived(0, id));
        std::shared_ptr<Derived> e(new Derived(1, id));
        opn = "convert-derived";
        if (r.coin() && dext.size() < 6)
        {
          opn += "-co-owned";
          dext.emplace_back(d, e);
        }
        a[i] = nostd::shared_ptr<Obj>(std::move(d));
        b[i] = std::move(e);
        VF_CHECK(!d && d.get() == nullptr, "sptr-observers", opn, "derived source still owns after converting move");
        R.count("sptr_convert_derived");
      }
      else if (kind < 94)
      {
        opn = "drop-outside-owner";
        if (!ext.empty())
        {
          size_t k = static_cast<size_t>(r.below(ext.size()));
          ext.erase(ext.begin() + static_cast<long>(k));
        }
        else if (!dext.empty())
        {
          size_t k = static_cast<size_t>(r.below(dext.size()));
          VF_CHECK(observe(dext[k].first) == observe(dext[k].second) && dext[k].first->extra == dext[k].second->extra, "sptr-observers",
                   "derived-co-owner", "Derived-typed co-owner");
          dext.erase(dext.begin() + static_cast<long>(k));
        }
      }
      else
      {
        opn     = "compare";
        bool ok = (a[i] == nullptr) == (b[i] == nullptr) && (nullptr == a[i]) == (nullptr == b[i]) && (a[i] != nullptr) == (b[i] != nullptr) &&
                  (nullptr != a[i]) == (nullptr != b[i]);
        VF_CHECK(ok, "sptr-compare", "nullptr", "comparison with nullptr");
        if (b[i] && a[i])
          VF_CHECK((*a[i]).id == (*b[i]).id && a[i]->id == b[i]->id && a[i].get()->kind() == b[i].get()->kind(), "sptr-observers", "deref",
                   "operator* / operator->");
      }
      if (trace.size() > 160)
        trace = "..." + trace.substr(trace.size() - 120);
      trace += opn + "(" + std::to_string(i) + "," + std::to_string(j) + ") ";
      check(opn);
    }
    R.nontrivial(vf::mix(h, 4));
    if (R.want_sample(5) && r.chance(1, 50))
      R.sample("shared_ptr program: " + trace);
  }
  if (Obj::live[0] != live0[0] || Obj::live[1] != live0[1])
  {
    R.violation("sptr-live-count", Obj::live[0] - live0[0] > Obj::live[1] - live0[1] ? "object-outlives-its-owners" : "object-destroyed-while-owned",
                "at scope exit: objects left alive: " + std::to_string(Obj::live[0] - live0[0]) + " std " + std::to_string(Obj::live[1] - live0[1]));
    Obj::live[0] = Obj::live[1] = 0;
  }
}

// ==========================================================================================
// function_ref   (std::function over std::ref of an identical target)
// ==========================================================================================
struct Acc
{
  int base  = 0;
  int calls = 0;
  int operator()(int x)
  {
    ++calls;
    return x * base + calls;
  }
};
struct ConstFn
{
  int base;
  int operator()(int x) const { return x - base; }
};
static int twice(int x)
{
  return 2 * x;
}
static int negate_it(int x)
{
  return -x;
}
static int apply_ref(nostd::function_ref<int(int)> f, int x)
{
  return f(x);
}
static int apply_fn(const std::function<int(int)> &f, int x)
{
  return f(x);
}
static int take_unique(std::unique_ptr<int> p)
{
  return p ? *p + 1 : -1;
}

static void fref_program(uint64_t seed)
{
  auto &R = vf::report();
  Rng r(seed);
  size_t nops = static_cast<size_t>(r.range(3, 40));
  uint64_t h  = 5;
  for (size_t op = 0; op < nops; ++op)
  {
    unsigned kind = static_cast<unsigned>(r.below(100));
    int x         = static_cast<int>(r.range(-1000, 1000));
    h             = vf::mix(h, kind);
    R.count("fref_ops");
    if (kind < 22)
    {
      // stateful functor: the reference sees and changes the one target
      Acc t0{static_cast<int>(r.range(-5, 5)), 0}, t1 = t0;
      nostd::function_ref<int(int)> f(t0);
      std::function<int(int)> g(std::ref(t1));
      nostd::function_ref<int(int)> f2(f);  // copies refer to the same target
      bool ok  = static_cast<bool>(f) && static_cast<bool>(f2);
      size_t n = static_cast<size_t>(r.range(1, 6));
      for (size_t k = 0; k < n; ++k)
      {
        int a = (k & 1) ? f2(x + static_cast<int>(k)) : f(x + static_cast<int>(k));
        int b = g(x + static_cast<int>(k));
        ok    = ok && a == b;
      }
      t0.base += 3;  // a change of the target is visible through the reference
      t1.base += 3;
      ok = ok && f(x) == g(x) && t0.calls == t1.calls;
      VF_CHECK(ok, "fref-result", "stateful-functor", "results or call count differ from std::function(std::ref)");
      // A copy refers to the callable, not to the function_ref it was copied from: it keeps working after the
      // source has been re-bound to another callable or destroyed.  Copies are taken from a non-const lvalue, a
      // const lvalue and an rvalue, by direct and copy initialisation and into a container.
      {
        using FR = nostd::function_ref<int(int)>;
        Acc other{t0.base + 100, 0};
        alignas(FR) unsigned char store[sizeof(FR)];
        FR *src = new (store) FR(t0);
        const FR csrc(t0);
        FR c1(*src);
        FR c2 = *src;
        FR c3(csrc);
        FR tmp(*src);
        FR c4(std::move(tmp));
        std::vector<FR> vec;
        vec.emplace_back(*src);
        vec.push_back(*src);
        auto *heap_src = new FR(t0);
        FR c5(*heap_src);
        delete heap_src;  // this source is gone
        src->~FR();       // and the other one's storage now holds a reference to another callable
        src = new (store) FR(other);
        bool ok2 = true;
        FR *all[] = {&c1, &c2, &c3, &c4, &vec[0], &vec[1], &c5};
        for (auto *c : all)
          ok2 = ok2 && (*c)(x) == g(x);
        ok2 = ok2 && t0.calls == t1.calls && other.calls == 0 && (*src)(x) != 0x7fffffff && other.calls == 1;
        src->~FR();
        R.count("fref_copies_outliving_or_rebound_source", 7);
        VF_CHECK(ok2, "fref-copy-refers-to-callable", "source-rebound-or-destroyed",
                 "a copy of a function_ref followed its source instead of the callable");
      }
    }
    else if (kind < 40)
    {
      int captured = static_cast<int>(r.range(-9, 9)), seen0 = 0, seen1 = 0;
      auto l0 = [&, captured](int v) {
        seen0 += v;
        return v ^ captured;
      };
      auto l1 = [&, captured](int v) {
        seen1 += v;
        return v ^ captured;
      };
      nostd::function_ref<int(int)> f(l0);
      std::function<int(int)> g(std::ref(l1));
      bool ok = f(x) == g(x) && f(x + 1) == g(x + 1) && seen0 == seen1;
      // a temporary lambda bound for the duration of a call (the common way the API uses it)
      ok = ok && apply_ref([&](int v) { return v * captured + seen0; }, x) == apply_fn([&](int v) { return v * captured + seen1; }, x);
      VF_CHECK(ok, "fref-result", "lambda", "lambda results differ");
    }
    else if (kind < 55)
    {
      int (*fp)(int) = r.coin() ? twice : negate_it;
      int (*gp)(int) = fp;
      nostd::function_ref<int(int)> f(fp);
      std::function<int(int)> g(gp);
      fp = nullptr;  // the pointer's value was captured, not its address
      VF_CHECK(static_cast<bool>(f) && f(x) == g(x), "fref-result", "function-pointer", "function pointer target");
      ConstFn c{static_cast<int>(r.range(0, 50))};
      // (binding a const-qualified functor does not compile with nostd::function_ref; not a run-time matter)
      nostd::function_ref<int(int)> fc(c);
      std::function<int(int)> gc(std::cref(c));
      VF_CHECK(fc(x) == gc(x), "fref-result", "const-functor", "const functor target");
    }
    else if (kind < 65)
    {
      int (*nullfp)(int) = nullptr;
      nostd::function_ref<int(int)> f(nullfp);
      std::function<int(int)> g(nullfp);
      nostd::function_ref<int(int)> fn(nullptr);
      std::function<int(int)> gn(nullptr);
      VF_CHECK(static_cast<bool>(f) == static_cast<bool>(g) && static_cast<bool>(fn) == static_cast<bool>(gn), "fref-bool", "null-target",
               "bool conversion of an empty reference");
      R.count("fref_null_targets");
    }
    else if (kind < 75)
    {
      // reference parameters and void return
      int total0 = 0, total1 = 0;
      auto inc0 = [&](int &v) { total0 += ++v; };
      auto inc1 = [&](int &v) { total1 += ++v; };
      nostd::function_ref<void(int &)> f(inc0);
      std::function<void(int &)> g(std::ref(inc1));
      int v0 = x, v1 = x;
      f(v0);
      f(v0);
      g(v1);
      g(v1);
      VF_CHECK(v0 == v1 && total0 == total1 && v0 == x + 2, "fref-result", "reference-argument", "int& argument / void return");
      // reference return
      int cells0[3] = {1, 2, 3}, cells1[3] = {1, 2, 3};
      auto at0 = [&](size_t i) -> int & { return cells0[i]; };
      auto at1 = [&](size_t i) -> int & { return cells1[i]; };
      nostd::function_ref<int &(size_t)> fr(at0);
      std::function<int &(size_t)> gr(std::ref(at1));
      fr(1) = x;
      gr(1) = x;
      VF_CHECK(cells0[1] == cells1[1] && &fr(2) == &cells0[2], "fref-result", "reference-return", "int& return");
    }
    else if (kind < 88)
    {
      // class-type arguments and results; string views over exact-size buffers
      std::string s = r.bytes(static_cast<size_t>(r.range(0, 12)), std::string("ab\0\xff", 4));
      auto cut      = [](const std::string &t, size_t n) { return t.substr(0, std::min(n, t.size())); };
      nostd::function_ref<std::string(const std::string &, size_t)> f(cut);
      std::function<std::string(const std::string &, size_t)> g(cut);
      size_t n = static_cast<size_t>(r.below(14));
      VF_CHECK(f(s, n) == g(s, n), "fref-result", "string-argument", "std::string argument and result");
      vf::Buf kb(s), vb(s + "v");
      size_t bytes0 = 0, bytes1 = 0;
      auto cb0 = [&](nostd::string_view k, nostd::string_view v) {
        bytes0 += k.size() * 3 + v.size();
        return k.size() < 6;
      };
      auto cb1 = [&](nostd::string_view k, nostd::string_view v) {
        bytes1 += k.size() * 3 + v.size();
        return k.size() < 6;
      };
      nostd::function_ref<bool(nostd::string_view, nostd::string_view)> fc(cb0);
      std::function<bool(nostd::string_view, nostd::string_view)> gc(std::ref(cb1));
      bool r0 = fc(nostd::string_view(kb.data(), kb.size()), nostd::string_view(vb.data(), vb.size()));
      bool r1 = gc(nostd::string_view(kb.data(), kb.size()), nostd::string_view(vb.data(), vb.size()));
      VF_CHECK(r0 == r1 && bytes0 == bytes1, "fref-result", "string-view-callback", "bool(string_view,string_view) callback");
    }
    else
    {
      // move-only argument is forwarded, not copied
      nostd::function_ref<int(std::unique_ptr<int>)> f(take_unique);
      std::function<int(std::unique_ptr<int>)> g(take_unique);
      int a = f(std::unique_ptr<int>(new int(x))), b = g(std::unique_ptr<int>(new int(x)));
      int c = f(std::unique_ptr<int>()), d = g(std::unique_ptr<int>());
      VF_CHECK(a == b && c == d, "fref-result", "move-only-argument", "std::unique_ptr<int> argument");
      // a std::function object is itself a callable target
      std::function<int(int)> inner = [x](int v) { return v + x; };
      nostd::function_ref<int(int)> fo(inner);
      VF_CHECK(fo(5) == inner(5), "fref-result", "std-function-target", "std::function as target");
    }
  }
  R.nontrivial(vf::mix(h, seed));
}

// ==========================================================================================
// variant  (4 alternatives, lock-step with std::variant; no valueless states are produced)
// ==========================================================================================
struct Tracked
{
  int universe, id;
  Tracked(int u, int i) : universe(u), id(i) { ++Obj::live[u]; }
  Tracked(const Tracked &o) : universe(o.universe), id(o.id) { ++Obj::live[universe]; }
  Tracked(Tracked &&o) noexcept : universe(o.universe), id(o.id)
  {
    ++Obj::live[universe];
    o.id = -o.id;  // deterministic moved-from state
  }
  Tracked &operator=(const Tracked &o)
  {
    id = o.id;  // the universe of an object never changes
    return *this;
  }
  Tracked &operator=(Tracked &&o) noexcept
  {
    id   = o.id;
    o.id = -o.id;
    return *this;
  }
  ~Tracked() { --Obj::live[universe]; }
  bool operator==(const Tracked &o) const { return id == o.id; }
  bool operator!=(const Tracked &o) const { return id != o.id; }
  bool operator<(const Tracked &o) const { return id < o.id; }
  bool operator>(const Tracked &o) const { return id > o.id; }
  bool operator<=(const Tracked &o) const { return id <= o.id; }
  bool operator>=(const Tracked &o) const { return id >= o.id; }
};

typedef nostd::variant<int, std::string, Tracked, std::vector<int>> NV;
typedef std::variant<int, std::string, Tracked, std::vector<int>> SV;

struct Describe
{
  std::string operator()(int v) const { return "int:" + std::to_string(v); }
  std::string operator()(const std::string &s) const { return "str:" + vf::show(s); }
  std::string operator()(const Tracked &t) const { return "trk:" + std::to_string(t.id); }
  std::string operator()(const std::vector<int> &v) const
  {
    std::string s = "vec:";
    for (int e : v)
      s += std::to_string(e) + ",";
    return s;
  }
};
struct Describe2
{
  template <class A, class B>
  std::string operator()(const A &a, const B &b) const
  {
    return Describe()(a) + "|" + Describe()(b);
  }
};
struct Mutate
{
  int d;
  void operator()(int &v) const { v += d; }
  void operator()(std::string &s) const { s += static_cast<char>('a' + (d & 7)); }
  void operator()(Tracked &t) const { t.id += d; }
  void operator()(std::vector<int> &v) const { v.push_back(d); }
};

template <class V>
static int try_get(const V &v, size_t which, std::string &out)
{
  // 0 returned, 1 bad_variant_access, 2 other
  try
  {
    switch (which)
    {
      case 0:
        out = Describe()(nostd::get<0>(v));
        break;
      case 1:
        out = Describe()(nostd::get<std::string>(v));
        break;
      case 2:
        out = Describe()(nostd::get<2>(v));
        break;
      default:
        out = Describe()(nostd::get<std::vector<int>>(v));
    }
    return 0;
  }
  catch (const nostd::bad_variant_access &)
  {
    return 1;
  }
  catch (...)
  {
    return 2;
  }
}
static int try_get_std(const SV &v, size_t which, std::string &out)
{
  try
  {
    switch (which)
    {
      case 0:
        out = Describe()(std::get<0>(v));
        break;
      case 1:
        out = Describe()(std::get<std::string>(v));
        break;
      case 2:
        out = Describe()(std::get<2>(v));
        break;
      default:
        out = Describe()(std::get<std::vector<int>>(v));
    }
    return 0;
  }
  catch (const std::bad_variant_access &)
  {
    return 1;
  }
  catch (...)
  {
    return 2;
  }
}

// ==========================================================================================
// variant, second part: operations that fail half way.  Two alternatives throw on demand (a fuse
// armed by the program): CopyBomb from its copy operations only (move is noexcept), MoveBomb from
// its copy and its move operations.  Both give the strong guarantee (they throw before anything
// is changed).  The same operation runs with the same fuse on nostd::variant and on std::variant;
// afterwards everything observable is compared.  Judged is only what the standard fixes:
//   operator=(const variant&), other alternative, nothrow-move-constructible Tj: copy into a
//     temporary first, so the old value is kept                        ([variant.assign]/2.5)
//   operator=(T&&), other alternative, nothrow-move-constructible Tj: Tj(t) is built first, so
//     the old value is kept                                            ([variant.assign]/13.3)
//   same alternative (copy / move / converting assignment): Tj's own assignment runs, index()
//     stays, the value is as Tj's assignment leaves it (unchanged here) ([variant.assign]/5,10,16)
//   operator=(variant&&), other alternative, Tj's move constructor throws: "the variant will
//     hold no value"                                                    ([variant.assign]/10)
//   copy / move construction: the exception leaves, the source is unchanged, nothing leaks.
// emplace, and the copy / converting assignments that are "equivalent to emplace" (Tj not
// nothrow-move-constructible), say "the variant might not hold a value": don't-care, only
// "valueless or still the old value" and the agreement of the observers with each other is judged.
// ==========================================================================================
struct Injected : std::runtime_error
{
  Injected() : std::runtime_error("injected failure") {}
};
struct Fuse
{
  static bool copy_armed, move_armed;
  static void on_copy()
  {
    if (copy_armed)
    {
      copy_armed = false;
      throw Injected();
    }
  }
  static void on_move()
  {
    if (move_armed)
    {
      move_armed = false;
      throw Injected();
    }
  }
  static void disarm() { copy_armed = move_armed = false; }
};
bool Fuse::copy_armed = false;
bool Fuse::move_armed = false;

template <bool MoveThrows>
struct Fragile
{
  int universe, id;
  Fragile(int u, int i) : universe(u), id(i) { ++Obj::live[u]; }
  Fragile(const Fragile &o) : universe(o.universe), id(o.id)
  {
    Fuse::on_copy();  // a constructor that throws has constructed nothing
    ++Obj::live[universe];
  }
  Fragile(Fragile &&o) noexcept(!MoveThrows) : universe(o.universe), id(o.id)
  {
    if (MoveThrows)
      Fuse::on_move();
    ++Obj::live[universe];
    o.id = -o.id;  // deterministic moved-from state
  }
  Fragile &operator=(const Fragile &o)
  {
    Fuse::on_copy();
    id = o.id;
    return *this;
  }
  Fragile &operator=(Fragile &&o) noexcept(!MoveThrows)
  {
    if (MoveThrows)
      Fuse::on_move();
    id   = o.id;
    o.id = -o.id;
    return *this;
  }
  ~Fragile() { --Obj::live[universe]; }
  bool operator==(const Fragile &o) const { return id == o.id; }
  bool operator!=(const Fragile &o) const { return id != o.id; }
  bool operator<(const Fragile &o) const { return id < o.id; }
  bool operator>(const Fragile &o) const { return id > o.id; }
  bool operator<=(const Fragile &o) const { return id <= o.id; }
  bool operator>=(const Fragile &o) const { return id >= o.id; }
};
typedef Fragile<false> CopyBomb;  // copy may throw, move is noexcept
typedef Fragile<true> MoveBomb;   // copy and move may throw
static_assert(!std::is_nothrow_copy_constructible<CopyBomb>::value && std::is_nothrow_move_constructible<CopyBomb>::value, "CopyBomb");
static_assert(!std::is_nothrow_copy_constructible<MoveBomb>::value && !std::is_nothrow_move_constructible<MoveBomb>::value, "MoveBomb");

typedef nostd::variant<int, std::string, CopyBomb, MoveBomb> NX;
typedef std::variant<int, std::string, CopyBomb, MoveBomb> SX;

struct XDescribe
{
  std::string operator()(int v) const { return "int:" + std::to_string(v); }
  std::string operator()(const std::string &s) const { return "str:" + vf::show(s); }
  std::string operator()(const CopyBomb &t) const { return "copybomb:" + std::to_string(t.id); }
  std::string operator()(const MoveBomb &t) const { return "movebomb:" + std::to_string(t.id); }
};
struct XDescribe2
{
  template <class A, class B>
  std::string operator()(const A &a, const B &b) const
  {
    return XDescribe()(a) + "|" + XDescribe()(b);
  }
};

struct NostdApi
{
  typedef NX V;
  typedef nostd::bad_variant_access bad_access;
  template <size_t I>
  static std::string get(const V &v)
  {
    return XDescribe()(nostd::get<I>(v));
  }
  template <class T>
  static bool holds(const V &v)
  {
    return nostd::holds_alternative<T>(v);
  }
  template <class T>
  static const T *get_if(const V &v)
  {
    return nostd::get_if<T>(&v);
  }
  template <size_t I>
  static bool get_if_index(const V &v)
  {
    return nostd::get_if<I>(&v) != nullptr;
  }
  static std::string visit(const V &v) { return nostd::visit(XDescribe(), v); }
  static std::string visit2(const V &v, const V &w) { return nostd::visit(XDescribe2(), v, w); }
};
struct StdApi
{
  typedef SX V;
  typedef std::bad_variant_access bad_access;
  template <size_t I>
  static std::string get(const V &v)
  {
    return XDescribe()(std::get<I>(v));
  }
  template <class T>
  static bool holds(const V &v)
  {
    return std::holds_alternative<T>(v);
  }
  template <class T>
  static const T *get_if(const V &v)
  {
    return std::get_if<T>(&v);
  }
  template <size_t I>
  static bool get_if_index(const V &v)
  {
    return std::get_if<I>(&v) != nullptr;
  }
  static std::string visit(const V &v) { return std::visit(XDescribe(), v); }
  static std::string visit2(const V &v, const V &w) { return std::visit(XDescribe2(), v, w); }
};

template <class Api, size_t I>
static std::string x_get(const typename Api::V &v)
{
  try
  {
    return Api::template get<I>(v);
  }
  catch (const typename Api::bad_access &)
  {
    return "bad_variant_access";
  }
  catch (...)
  {
    return "other-exception";
  }
}
template <class Api>
static std::string x_visit2(const typename Api::V &v, const typename Api::V &w)
{
  try
  {
    return Api::visit2(v, w);
  }
  catch (const typename Api::bad_access &)
  {
    return "bad_variant_access";
  }
  catch (...)
  {
    return "other-exception";
  }
}

static std::string x_format(size_t index, bool valueless, const bool (&holds)[4], const bool (&ifs)[4], const bool (&ifs_index)[4],
                            const std::string &through_get_if, const std::string &through_get, const std::string &visited)
{
  std::string s = "index=" + (index == static_cast<size_t>(-1) ? std::string("npos") : std::to_string(index));
  s += valueless ? " valueless" : " has-value";
  s += " holds=";
  for (bool b : holds)
    s += b ? '1' : '0';
  s += " get_if<T>=";
  for (bool b : ifs)
    s += b ? '1' : '0';
  s += " get_if<I>=";
  for (bool b : ifs_index)
    s += b ? '1' : '0';
  s += " *get_if=" + through_get_if + " get<index()>=" + through_get + " visit=" + visited;
  return s;
}

// everything that can be observed of one variant without provoking bad_variant_access on a variant
// that holds a value, as text (ids are the same in both universes)
template <class Api>
static std::string x_observe(const typename Api::V &v)
{
  bool holds[4]     = {Api::template holds<int>(v), Api::template holds<std::string>(v), Api::template holds<CopyBomb>(v), Api::template holds<MoveBomb>(v)};
  bool ifs[4]       = {Api::template get_if<int>(v) != nullptr, Api::template get_if<std::string>(v) != nullptr,
                       Api::template get_if<CopyBomb>(v) != nullptr, Api::template get_if<MoveBomb>(v) != nullptr};
  bool ifs_index[4] = {Api::template get_if_index<0>(v), Api::template get_if_index<1>(v), Api::template get_if_index<2>(v), Api::template get_if_index<3>(v)};
  std::string through_get_if;
  if (const int *p0 = Api::template get_if<int>(v))
    through_get_if += XDescribe()(*p0);
  if (const std::string *p1 = Api::template get_if<std::string>(v))
    through_get_if += XDescribe()(*p1);
  if (const CopyBomb *p2 = Api::template get_if<CopyBomb>(v))
    through_get_if += XDescribe()(*p2);
  if (const MoveBomb *p3 = Api::template get_if<MoveBomb>(v))
    through_get_if += XDescribe()(*p3);
  if (through_get_if.empty())
    through_get_if = "none";
  std::string through_get;
  switch (v.index())
  {
    case 0:
      through_get = x_get<Api, 0>(v);
      break;
    case 1:
      through_get = x_get<Api, 1>(v);
      break;
    case 2:
      through_get = x_get<Api, 2>(v);
      break;
    case 3:
      through_get = x_get<Api, 3>(v);
      break;
    default:
      through_get = "none";
  }
  std::string visited;
  try
  {
    visited = Api::visit(v);
  }
  catch (const typename Api::bad_access &)
  {
    visited = "bad_variant_access";
  }
  catch (...)
  {
    visited = "other-exception";
  }
  return x_format(v.index(), v.valueless_by_exception(), holds, ifs, ifs_index, through_get_if, through_get, visited);
}
// get<I> of an alternative that is not held (any, when no value is held): bad_variant_access in both worlds
template <class Api>
static std::string x_get_not_held(const typename Api::V &v, size_t salt)
{
  size_t held = v.index(), w = held < 4 ? (held + 1 + salt % 3) % 4 : salt % 4;
  std::string s = "get<" + std::to_string(w) + ">=";
  switch (w)
  {
    case 0:
      return s + x_get<Api, 0>(v);
    case 1:
      return s + x_get<Api, 1>(v);
    case 2:
      return s + x_get<Api, 2>(v);
    default:
      return s + x_get<Api, 3>(v);
  }
}
// what the standard says of a variant that holds no value (written down, not computed by either type)
static const std::string &x_valueless()
{
  static const bool none[4]          = {false, false, false, false};
  static const std::string valueless = x_format(static_cast<size_t>(-1), true, none, none, none, "none", "none", "bad_variant_access");
  return valueless;
}

template <class V>
static unsigned rel_bits(const V &x, const V &y)
{
  return (x == y ? 1u : 0u) | (x != y ? 2u : 0u) | (x < y ? 4u : 0u) | (x > y ? 8u : 0u) | (x <= y ? 16u : 0u) | (x >= y ? 32u : 0u);
}

enum Mandate
{
  kOldValueKept,  // the operation must not have touched the target
  kValueless,     // the target must hold no value
  kDontCare       // "might not hold a value"
};

static uint64_t variant_throw_program(uint64_t seed)
{
  auto &R = vf::report();
  Rng r(seed);
  constexpr size_t M = 4;
  int live0[2]       = {Obj::live[0], Obj::live[1]};
  uint64_t h         = 11;
  static_assert(nostd::variant_size<NX>::value == std::variant_size<SX>::value, "variant_size");
  {
    NX a[M];
    SX b[M];
    int next_id = 1;
    size_t step = 0;  // rotates the choices that need no case split of their own
    std::string trace;
    const std::string &valueless = x_valueless();
    auto xa = [&](size_t k) { return x_observe<NostdApi>(a[k]); };
    auto xb = [&](size_t k) { return x_observe<StdApi>(b[k]); };
    // give both variants k the same fresh value of alternative alt (nothing is armed here)
    auto set = [&](size_t k, size_t alt) {
      int id = next_id++;
      switch (alt)
      {
        case 0:
          a[k].emplace<0>(id);
          b[k].emplace<0>(id);
          break;
        case 1:
        {
          std::string s = r.bytes(static_cast<size_t>(r.range(0, 30)), "ab");  // beyond SSO sometimes
          a[k].emplace<1>(s);
          b[k].emplace<1>(s);
          break;
        }
        case 2:
          a[k].emplace<2>(0, id);
          b[k].emplace<2>(1, id);
          break;
        default:
          a[k].emplace<3>(0, id);
          b[k].emplace<3>(1, id);
      }
    };
    // run one operation with the fuse set; 0 returned, 1 the injected exception left it, 2 something else did
    auto run = [&](bool arm_copy, bool arm_move, auto &&fn) -> int {
      Fuse::copy_armed = arm_copy;
      Fuse::move_armed = arm_move;
      int out          = 0;
      try
      {
        fn();
      }
      catch (const Injected &)
      {
        out = 1;
      }
      catch (...)
      {
        out = 2;
      }
      Fuse::disarm();
      return out;
    };
    auto counter_name = [](const std::string &family, const std::string &cls) {
      std::string n = "var_throw_" + (family.empty() || cls.compare(0, family.size(), family) == 0 ? cls : family + "_" + cls);
      for (char &c : n)
        if (c == '-' || c == ':' || c == ',')
          c = '_';
      return n;
    };
    auto outcome_text = [](int t) { return std::string(t == 0 ? "returned" : (t == 1 ? "threw the injected exception" : "threw something else")); };
    // a variant that holds no value behaves as the standard says wherever it goes next
    auto valueless_extras = [&](size_t j) {
      R.count("var_valueless_checked");
      size_t k = (j + 1) % M;  // holds a value: every variant is given one before the next operation
      bool ok  = rel_bits(a[j], a[k]) == rel_bits(b[j], b[k]) && rel_bits(a[k], a[j]) == rel_bits(b[k], b[j]) && rel_bits(a[j], a[j]) == rel_bits(b[j], b[j]);
      VF_CHECK(ok, "var-compare", "valueless-operand", "relational operators with a valueless operand, other operand " + xb(k));
      std::string va = x_visit2<NostdApi>(a[k], a[j]), vb = x_visit2<StdApi>(b[k], b[j]);
      VF_CHECK(va == vb, "var-visit", "valueless-operand", "visit(f, v, valueless) gave " + va + " std " + vb);
      NX t(a[j]);
      SX u(b[j]);
      std::string ot = x_observe<NostdApi>(t), ou = x_observe<StdApi>(u);
      VF_CHECK(ot == ou, "var-valueless", "copy-construct-from-valueless", "copy of a valueless variant: " + ot + " std " + ou);
      NX t2(a[k]);
      SX u2(b[k]);
      t2 = a[j];
      u2 = b[j];
      ot = x_observe<NostdApi>(t2);
      ou = x_observe<StdApi>(u2);
      VF_CHECK(ot == ou, "var-valueless", "copy-assign-from-valueless", "target " + xb(k) + " assigned a valueless variant: " + ot + " std " + ou);
      NX t3(a[k]);
      SX u3(b[k]);
      t3 = std::move(t);
      u3 = std::move(u);
      ot = x_observe<NostdApi>(t3);
      ou = x_observe<StdApi>(u3);
      VF_CHECK(ot == ou, "var-valueless", "move-assign-from-valueless", "target " + xb(k) + " move-assigned a valueless variant: " + ot + " std " + ou);
    };
    // the target j of an assignment / emplace after the operation
    auto judge_target = [&](const std::string &assertion, const std::string &family, const std::string &cls, bool armed, Mandate m, int ta, int tb,
                            size_t j, const std::string &before_a, const std::string &before_b, const std::string &source) {
      std::string na = xa(j), sb = xb(j);
      if (armed)
      {
        // one get<I> of an alternative that is not held, after every operation that failed (I rotates
        // with the step): bad_variant_access whatever the state is
        std::string ng = x_get_not_held<NostdApi>(a[j], step), sg = x_get_not_held<StdApi>(b[j], step);
        static const std::string bad = "=bad_variant_access";
        bool n_ok = ng.size() > bad.size() && ng.compare(ng.size() - bad.size(), bad.size(), bad) == 0;
        bool s_ok = sg.size() > bad.size() && sg.compare(sg.size() - bad.size(), bad.size(), bad) == 0;
        if (s_ok && !n_ok)
          R.violation("var-get-throws", "after-exception:other-alternative", "after " + trace + ": " + family + ": " + ng + " on " + na + ", std " + sg);
      }
      std::string wit = "after " + trace + ": " + family + (armed ? " with the fuse armed" : " (nothing armed)") + ", target was " + before_b + ", source " + source +
                        ": nostd " + outcome_text(ta) + ", target now " + na + "; std " + outcome_text(tb) + ", target now " + sb;
      if (!armed)
      {
        R.count("var_throw_unarmed_ops");
        if (ta != 0 || tb != 0)
          R.violation("var-throw-propagates", "nothing-armed:" + cls, wit);
        else if (na != sb)
          R.violation("var-index-value", family + ":" + cls, wit);
      }
      else
      {
        R.count("var_throw_ops");
        R.count(counter_name(family == "convert-assign" ? "" : family, cls));
        if (tb != 1)
          R.count("var_throw_oracle_off_standard");  // std::variant did not let the exception out: no reference, no verdict
        else
        {
          if (ta != tb)
            R.violation("var-throw-propagates", cls, wit);
          if (m == kDontCare)
          {
            R.count("var_throw_dontcare");
            if (na == sb)
              R.count("var_throw_dontcare_same_as_std");
            if (na != before_a && na != valueless)
              R.violation(assertion, cls + ",neither-old-value-nor-valueless", wit);
          }
          else if (sb != (m == kValueless ? valueless : before_b))
            R.count("var_throw_oracle_off_standard");  // libstdc++ itself is not where the standard puts it: not judged
          else
          {
            R.count(m == kValueless ? "var_throw_judged_valueless" : "var_throw_judged_old_value_kept");
            if (na != sb)
              R.violation(assertion, cls, wit);
          }
          if (R.want_sample(8))
          {
            static int sampled = 0;
            if (sampled++ < 1)
              R.sample("variant exception step: " + wit, 8);
          }
        }
      }
      if (na == valueless && sb == valueless && (step & 3) == 0)
        valueless_extras(j);
      if (na != sb || sb == valueless)
      {
        // go on from a state both sides agree on (and that holds a value)
        int id = next_id++;
        a[j].emplace<0>(id);
        b[j].emplace<0>(id);
      }
    };
    // the source i of a copy / move: same in both worlds, and untouched when the operation threw
    auto judge_source = [&](const std::string &assertion, const std::string &family, const std::string &cls, int ta, int tb, size_t i,
                            const std::string &before_a) {
      std::string na = xa(i), sb = xb(i);
      if (na != sb || (tb == 1 && na != before_a))
      {
        if (ta == tb)  // otherwise reported already: the two operations went different ways
          R.violation(assertion, cls + ",source", "after " + trace + ": " + family + ": source was " + before_a + ", now " + na + ", std " + sb);
        int id = next_id++;
        a[i].emplace<0>(id);
        b[i].emplace<0>(id);
      }
    };
    auto live_check = [&](const std::string &when) {
      int d0 = Obj::live[0] - live0[0], d1 = Obj::live[1] - live0[1];
      if (d0 != d1)
      {
        R.violation("var-live-count", when + (d0 > d1 ? ":alternative-not-destroyed" : ":alternative-destroyed-twice-or-early"),
                    "after " + trace + ": live alternatives " + std::to_string(d0) + " std " + std::to_string(d1));
        live0[0] = Obj::live[0] - d1;
      }
    };
    static const char *const type_class[4] = {"", "", "copy-throws-move-noexcept", "copy-throws-move-throws"};

    for (size_t k = 0; k < M; ++k)
      set(k, static_cast<size_t>(r.below(4)));
    size_t nops = static_cast<size_t>(r.range(3, 10));
    for (size_t op = 0; op < nops; ++op)
    {
      size_t i = static_cast<size_t>(r.below(M)), j = static_cast<size_t>(r.below(M));
      if (i == j)
        j = (j + 1) % M;
      unsigned kind = static_cast<unsigned>(r.below(100));
      bool armed    = r.chance(3, 4);
      step          = static_cast<size_t>(r.below(12));
      size_t typ    = r.coin() ? 2 : 3;  // the alternative that travels
      bool same     = r.chance(1, 3);    // the target holds that alternative already
      if (kind >= 70)
        typ = 3;  // move assignment / move construction: only MoveBomb's move can fail
      h = vf::mix(h, (((kind * 2 + armed) * 4 + typ) * 2 + same) * 16 + i * 4 + j);
      // bring the target into the wanted relation to the travelling alternative
      auto prepare_target = [&]() {
        if (same)
        {
          if (b[j].index() != typ)
            set(j, typ);
        }
        else if (b[j].index() == typ)
        {
          size_t other = static_cast<size_t>(r.below(3));
          set(j, other >= typ ? other + 1 : other);
        }
      };
      std::string rel = same ? "same-alternative" : "different-alternative";
      std::string opn, when = armed ? "after-exception" : "no-exception";
      if (kind < 28)
      {
        // ---- a[j] = a[i], variant to variant
        opn = "copy-assign";
        if (b[i].index() != typ)
          set(i, typ);
        prepare_target();
        std::string cls = std::string(type_class[typ]) + ":" + rel;
        std::string before_a = xa(j), before_b = xb(j), src_a = xa(i);
        int ta = run(armed, false, [&] {
          const NX &src = a[i];
          a[j]          = src;
        });
        int tb = run(armed, false, [&] {
          const SX &src = b[i];
          b[j]          = src;
        });
        // other alternative and Tj not nothrow-move-constructible: "equivalent to emplace<j>(get<j>(rhs))"
        Mandate m = (typ == 3 && !same) ? kDontCare : kOldValueKept;
        judge_target("var-assign-throws", "copy-assign", cls, armed, m, ta, tb, j, before_a, before_b, src_a);
        judge_source("var-assign-throws", "copy-assign", cls, ta, tb, i, src_a);
      }
      else if (kind < 44)
      {
        // ---- a[j] = lvalue of the alternative (converting assignment, has to copy)
        opn = "convert-assign";
        prepare_target();
        std::string cls = std::string("convert-") + type_class[typ] + ":" + rel;
        std::string before_a = xa(j), before_b = xb(j);
        int id = next_id++, ta, tb;
        if (typ == 2)
        {
          const CopyBomb c0(0, id), c1(1, id);
          ta = run(armed, false, [&] { a[j] = c0; });
          tb = run(armed, false, [&] { b[j] = c1; });
        }
        else
        {
          const MoveBomb c0(0, id), c1(1, id);
          ta = run(armed, false, [&] { a[j] = c0; });
          tb = run(armed, false, [&] { b[j] = c1; });
        }
        Mandate m = (typ == 3 && !same) ? kDontCare : kOldValueKept;  // as above: "equivalent to emplace<j>(t)"
        judge_target("var-assign-throws", "convert-assign", cls, armed, m, ta, tb, j, before_a, before_b, "a " + std::string(typ == 2 ? "CopyBomb" : "MoveBomb") + " lvalue");
      }
      else if (kind < 58)
      {
        // ---- emplace from an lvalue: the standard leaves the state after a failed initialisation open
        opn = "emplace";
        prepare_target();
        std::string cls = std::string(type_class[typ]) + ":" + rel;
        std::string before_a = xa(j), before_b = xb(j);
        int id = next_id++, ta, tb;
        bool by_type = r.coin();
        if (typ == 2)
        {
          const CopyBomb c0(0, id), c1(1, id);
          ta = run(armed, false, [&] { by_type ? a[j].emplace<CopyBomb>(c0) : a[j].emplace<2>(c0); });
          tb = run(armed, false, [&] { by_type ? b[j].emplace<CopyBomb>(c1) : b[j].emplace<2>(c1); });
        }
        else
        {
          const MoveBomb c0(0, id), c1(1, id);
          ta = run(armed, false, [&] { by_type ? a[j].emplace<MoveBomb>(c0) : a[j].emplace<3>(c0); });
          tb = run(armed, false, [&] { by_type ? b[j].emplace<MoveBomb>(c1) : b[j].emplace<3>(c1); });
        }
        judge_target("var-emplace-throws", "emplace", cls, armed, kDontCare, ta, tb, j, before_a, before_b, "an lvalue");
      }
      else if (kind < 70)
      {
        // ---- copy construction: no object, no change, no leak
        opn = "copy-construct";
        if (b[i].index() != typ)
          set(i, typ);
        std::string cls = std::string("copy-construct:") + type_class[typ];
        std::string src_a = xa(i), ot, ou;
        int ta = run(armed, false, [&] {
          NX t(a[i]);
          ot = x_observe<NostdApi>(t);
        });
        int tb = run(armed, false, [&] {
          SX u(b[i]);
          ou = x_observe<StdApi>(u);
        });
        R.count(armed ? "var_throw_ops" : "var_throw_unarmed_ops");
        if (armed)
          R.count(counter_name("", cls));
        if (armed && tb != 1)
          R.count("var_throw_oracle_off_standard");
        else if (ta != tb)
          R.violation("var-throw-propagates", cls, "after " + trace + ": copy construction from " + src_a + ": nostd " + outcome_text(ta) + ", std " + outcome_text(tb));
        else if (!armed && (ot != ou || ot != src_a))
          R.violation("var-index-value", cls, "copy of " + src_a + " is " + ot + ", std " + ou);
        judge_source("var-construct-throws", "copy-construct", cls, ta, tb, i, src_a);
      }
      else if (kind < 90)
      {
        // ---- a[j] = std::move(a[i]) with a move constructor / move assignment that throws
        opn = "move-assign";
        if (b[i].index() != typ)
          set(i, typ);
        prepare_target();
        std::string cls = "move-throws:" + rel;
        std::string before_a = xa(j), before_b = xb(j), src_a = xa(i);
        int ta = run(false, armed, [&] { a[j] = std::move(a[i]); });
        int tb = run(false, armed, [&] { b[j] = std::move(b[i]); });
        judge_target("var-assign-throws", "move-assign", cls, armed, same ? kOldValueKept : kValueless, ta, tb, j, before_a, before_b, src_a);
        judge_source("var-assign-throws", "move-assign", cls, ta, tb, i, src_a);
      }
      else
      {
        // ---- move construction that throws
        opn = "move-construct";
        if (b[i].index() != typ)
          set(i, typ);
        std::string cls = "move-construct:move-throws";
        std::string src_a = xa(i), ot, ou;
        int ta = run(false, armed, [&] {
          NX t(std::move(a[i]));
          ot = x_observe<NostdApi>(t);
        });
        int tb = run(false, armed, [&] {
          SX u(std::move(b[i]));
          ou = x_observe<StdApi>(u);
        });
        R.count(armed ? "var_throw_ops" : "var_throw_unarmed_ops");
        if (armed)
          R.count(counter_name("", cls));
        if (armed && tb != 1)
          R.count("var_throw_oracle_off_standard");
        else if (ta != tb)
          R.violation("var-throw-propagates", cls, "after " + trace + ": move construction from " + src_a + ": nostd " + outcome_text(ta) + ", std " + outcome_text(tb));
        else if (!armed && (ot != ou || ot != src_a))
          R.violation("var-index-value", cls, "variant move-constructed from " + src_a + " is " + ot + ", std " + ou);
        judge_source("var-construct-throws", "move-construct", cls, ta, tb, i, src_a);
      }
      if (trace.size() > 160)
        trace = "..." + trace.substr(trace.size() - 120);
      trace += opn + (armed ? "!" : "") + "(" + std::to_string(i) + "," + std::to_string(j) + ") ";
      live_check(when);
    }
    // every variant once more, whether or not an operation touched it last
    for (size_t k = 0; k < M; ++k)
    {
      std::string na = xa(k), sb = xb(k);
      VF_CHECK(na == sb, "var-index-value", "exception-part:final-state", "after " + trace + ": variant " + std::to_string(k) + " is " + na + ", std " + sb);
    }
  }
  if (Obj::live[0] != live0[0] || Obj::live[1] != live0[1])
  {
    R.violation("var-live-count",
                std::string("exception-part-scope-exit:") + (Obj::live[0] - live0[0] > Obj::live[1] - live0[1] ? "alternative-not-destroyed" : "alternative-destroyed-twice-or-early"),
                "at scope exit: alternatives left alive: " + std::to_string(Obj::live[0] - live0[0]) + " std " + std::to_string(Obj::live[1] - live0[1]));
    Obj::live[0] = live0[0];
    Obj::live[1] = live0[1];
  }
  return h;
}

static void variant_program(uint64_t seed)
{
  auto &R = vf::report();
  Rng r(seed);
  constexpr size_t N = 5;
  int live0[2]       = {Obj::live[0], Obj::live[1]};
  static_assert(nostd::variant_size<NV>::value == std::variant_size<SV>::value, "variant_size");
  static_assert(std::is_same<nostd::variant_alternative_t<2, NV>, std::variant_alternative_t<2, SV>>::value, "variant_alternative");
  uint64_t h = 7;
  {
    NV a[N];
    SV b[N];
    std::string trace;
    auto check = [&](const std::string &op) {
      for (size_t i = 0; i < N; ++i)
      {
        std::string da = nostd::visit(Describe(), a[i]), db = std::visit(Describe(), b[i]);
        if (a[i].index() != b[i].index() || da != db || a[i].valueless_by_exception() != b[i].valueless_by_exception())
        {
          R.violation("var-index-value", op,
                      "after " + trace + ": variant " + std::to_string(i) + " is index " + std::to_string(a[i].index()) + " " + da + ", std index " +
                          std::to_string(b[i].index()) + " " + db);
          a[i] = 0;
          b[i] = 0;
        }
      }
      if (Obj::live[0] - live0[0] != Obj::live[1] - live0[1])
      {
        R.violation("var-live-count", Obj::live[0] - live0[0] > Obj::live[1] - live0[1] ? "alternative-not-destroyed" : "alternative-destroyed-twice-or-early",
                    "after " + trace + " (" + op + "): live alternatives " + std::to_string(Obj::live[0] - live0[0]) + " std " + std::to_string(Obj::live[1] - live0[1]));
        live0[0] = Obj::live[0] - (Obj::live[1] - live0[1]);
      }
    };
    check("default-construct");
    size_t nops = static_cast<size_t>(r.range(5, 80));
    int next_id = 1;
    for (size_t op = 0; op < nops; ++op)
    {
      size_t i = static_cast<size_t>(r.below(N)), j = static_cast<size_t>(r.below(N));
      unsigned kind = static_cast<unsigned>(r.below(100));
      h             = vf::mix(h, kind * 64 + i * 8 + j);
      std::string opn;
      R.count("var_ops");
      if (kind < 22)
      {
        // converting assignment / emplace of each alternative
        size_t alt   = static_cast<size_t>(r.below(4));
        bool emplace = r.coin();
        opn          = std::string(emplace ? "emplace-" : "assign-") + std::to_string(alt);
        int iv       = static_cast<int>(r.range(-50, 50));
        std::string s = r.bytes(static_cast<size_t>(r.range(0, 40)), std::string("ab\0\xff", 4));  // beyond SSO sometimes
        std::vector<int> vec(static_cast<size_t>(r.range(0, 5)), iv);
        int id = next_id++;
        switch (alt)
        {
          case 0:
            if (emplace)
            {
              a[i].emplace<0>(iv);
              b[i].emplace<0>(iv);
            }
            else
            {
              a[i] = iv;
              b[i] = iv;
            }
            break;
          case 1:
            if (emplace)
            {
              a[i].emplace<std::string>(s);
              b[i].emplace<std::string>(s);
            }
            else
            {
              a[i] = s;
              b[i] = s;
            }
            break;
          case 2:
            if (emplace)
            {
              a[i].emplace<Tracked>(0, id);
              b[i].emplace<Tracked>(1, id);
            }
            else
            {
              a[i] = Tracked(0, id);
              b[i] = Tracked(1, id);
            }
            break;
          default:
            if (emplace)
            {
              a[i].emplace<3>(vec);
              b[i].emplace<3>(vec);
            }
            else
            {
              a[i] = vec;
              b[i] = vec;
            }
        }
        if (alt == 2)
          R.count("var_tracked_alternatives");
      }
      else if (kind < 36)
      {
        // copy between variants (assignment and construction); self-assignment is valid and has no effect
        if (r.coin())
        {
          opn  = i == j ? "copy-assign-self" : (a[i].index() == a[j].index() ? "copy-assign-same-index" : "copy-assign-other-index");
          NV &ai = a[i];
          SV &bi = b[i];
          a[j] = ai;
          b[j] = bi;
        }
        else
        {
          opn = "copy-construct";
          NV t(a[i]);
          SV u(b[i]);
          VF_CHECK(t.index() == u.index() && nostd::visit(Describe(), t) == std::visit(Describe(), u) && (t == a[i]), "var-index-value", opn,
                   "copy-constructed variant");
          a[j] = t;
          b[j] = u;
        }
      }
      else if (kind < 48)
      {
        // move between variants; the source keeps its index and is given a fresh value right after
        if (i == j)
          j = (j + 1) % N;
        opn = a[i].index() == a[j].index() ? "move-assign-same-index" : "move-assign-other-index";
        if (r.coin())
        {
          a[j] = std::move(a[i]);
          b[j] = std::move(b[i]);
        }
        else
        {
          opn = "move-construct";
          NV t(std::move(a[i]));
          SV u(std::move(b[i]));
          a[j] = std::move(t);
          b[j] = std::move(u);
        }
        VF_CHECK(a[i].index() == b[i].index(), "var-index-value", "moved-from-index", "moved-from variant changed its index");
        int iv = static_cast<int>(r.range(0, 9));
        a[i]   = iv;
        b[i]   = iv;
      }
      else if (kind < 56)
      {
        opn = i == j ? "swap-self" : (a[i].index() == a[j].index() ? "swap-same-index" : "swap-other-index");
        a[i].swap(a[j]);
        b[i].swap(b[j]);
      }
      else if (kind < 70)
      {
        // get<I>/get<T>: value or bad_variant_access, exactly as std
        size_t which = static_cast<size_t>(r.below(4));
        opn          = "get";
        std::string oa, ob;
        int ra = try_get(a[i], which, oa), rb = try_get_std(b[i], which, ob);
        R.count(rb ? "var_get_throws" : "var_get_returns");
        if (ra != rb)
          R.violation("var-get-throws", which == b[i].index() ? "held-alternative" : "other-alternative",
                      "get<" + std::to_string(which) + "> on index " + std::to_string(b[i].index()) + ": outcome " + std::to_string(ra) + " std " + std::to_string(rb));
        else if (ra == 0 && oa != ob)
          R.violation("var-get", "alternative-" + std::to_string(which), "get gave " + oa + " std " + ob);
        // get_if and holds_alternative
        bool ok = (nostd::get_if<0>(&a[i]) != nullptr) == (std::get_if<0>(&b[i]) != nullptr) &&
                  (nostd::get_if<std::string>(&a[i]) != nullptr) == (std::get_if<std::string>(&b[i]) != nullptr) &&
                  (nostd::get_if<2>(&a[i]) != nullptr) == (std::get_if<2>(&b[i]) != nullptr) &&
                  (nostd::get_if<std::vector<int>>(&a[i]) != nullptr) == (std::get_if<std::vector<int>>(&b[i]) != nullptr) &&
                  nostd::holds_alternative<int>(a[i]) == std::holds_alternative<int>(b[i]) &&
                  nostd::holds_alternative<std::string>(a[i]) == std::holds_alternative<std::string>(b[i]) &&
                  nostd::holds_alternative<Tracked>(a[i]) == std::holds_alternative<Tracked>(b[i]) &&
                  nostd::holds_alternative<std::vector<int>>(a[i]) == std::holds_alternative<std::vector<int>>(b[i]);
        VF_CHECK(ok, "var-holds", "index-" + std::to_string(b[i].index()), "get_if / holds_alternative");
        NV *np = nullptr;
        VF_CHECK(nostd::get_if<0>(np) == nullptr, "var-holds", "null-variant-pointer", "get_if(nullptr)");
      }
      else if (kind < 82)
      {
        // visit: one and two variants, and a mutating visitor
        opn = "visit";
        std::string da = nostd::visit(Describe2(), a[i], a[j]), db = std::visit(Describe2(), b[i], b[j]);
        VF_CHECK(da == db, "var-visit", "two-variants", "visit gave " + da + " std " + db);
        Mutate mu{static_cast<int>(r.range(1, 5))};
        nostd::visit(mu, a[i]);
        std::visit(mu, b[i]);
        R.count("var_visits");
      }
      else
      {
        // relational operators
        opn     = "compare";
        bool ok = (a[i] == a[j]) == (b[i] == b[j]) && (a[i] != a[j]) == (b[i] != b[j]) && (a[i] < a[j]) == (b[i] < b[j]) &&
                  (a[i] > a[j]) == (b[i] > b[j]) && (a[i] <= a[j]) == (b[i] <= b[j]) && (a[i] >= a[j]) == (b[i] >= b[j]);
        VF_CHECK(ok, "var-compare", b[i].index() == b[j].index() ? "same-index" : "other-index",
                 "relational operators on " + std::visit(Describe(), b[i]) + " , " + std::visit(Describe(), b[j]));
        R.count(b[i].index() == b[j].index() ? "var_compare_same_index" : "var_compare_other_index");
      }
      if (trace.size() > 160)
        trace = "..." + trace.substr(trace.size() - 120);
      trace += opn + "(" + std::to_string(i) + "," + std::to_string(j) + ") ";
      check(opn);
    }
  }
  if (Obj::live[0] != live0[0] || Obj::live[1] != live0[1])
  {
    R.violation("var-live-count", Obj::live[0] - live0[0] > Obj::live[1] - live0[1] ? "alternative-not-destroyed" : "alternative-destroyed-twice-or-early",
                "at scope exit: alternatives left alive: " + std::to_string(Obj::live[0] - live0[0]) + " std " + std::to_string(Obj::live[1] - live0[1]));
    Obj::live[0] = Obj::live[1] = 0;
  }
  // second part: operations that fail half way (own random stream, the one above is unchanged)
  h = vf::mix(h, variant_throw_program(vf::mix(seed, 0x7420)));
  R.nontrivial(vf::mix(h, 6));
}

// ------------------------------------------------------------------------------------------
// visit over every shape of operand list: the dispatcher picks a different strategy depending on the number of
// flattened cases (product of (alternatives + 1)): a hand-unrolled switch for small counts, a function table for
// large ones.  All combinations of active alternatives of unary visits with 2..64 alternatives, binary visits from
// 2x2 to 10x9 and ternary visits are compared with std::visit.  Added after the seeded change C20-w3-2 (switch
// limit raised without extending the switch) was missed: only 4x4 (25 cases) and 17x16 (306) were visited before.
// ------------------------------------------------------------------------------------------
template <size_t I>
struct ShapeTag
{
  int v;
  static constexpr size_t id = I;
};
template <template <class...> class Var, class Seq>
struct ShapeVarOf;
template <template <class...> class Var, size_t... I>
struct ShapeVarOf<Var, std::index_sequence<I...>>
{
  using type = Var<ShapeTag<I>...>;
};
template <template <class...> class Var, size_t N>
using ShapeVar = typename ShapeVarOf<Var, std::make_index_sequence<N>>::type;

template <class V, size_t... I>
static void shape_set_impl(V &v, size_t idx, int val, std::index_sequence<I...>)
{
  using Fn              = void (*)(V &, int);
  static const Fn tbl[] = {[](V &x, int y) { x.template emplace<I>(ShapeTag<I>{y}); }...};
  tbl[idx](v, val);
}
template <size_t N, class V>
static void shape_set(V &v, size_t idx, int val)
{
  shape_set_impl(v, idx, val, std::make_index_sequence<N>());
}
struct ShapeDescribe
{
  template <class... T>
  std::string operator()(const T &...t) const
  {
    std::string s;
    ((s += std::to_string(T::id) + ":" + std::to_string(t.v) + ","), ...);
    return s;
  }
};

template <size_t A>
static void shape_visit1(Rng &r)
{
  auto &R = vf::report();
  ShapeVar<nostd::variant, A> na;
  ShapeVar<std::variant, A> sa;
  for (size_t i = 0; i < A; ++i)
  {
    int x = static_cast<int>(r.below(1000));
    shape_set<A>(na, i, x);
    shape_set<A>(sa, i, x);
    std::string a = nostd::visit(ShapeDescribe(), na), b = std::visit(ShapeDescribe(), sa);
    VF_CHECK(a == b && na.index() == sa.index(), "var-visit-shape", "unary-" + std::to_string(A),
             "active alternative " + std::to_string(i) + ": visit called the visitor as " + a + ", std::visit as " + b);
  }
  R.count("var_visit_shape_combinations", A);
}
template <size_t A, size_t B>
static void shape_visit2(Rng &r)
{
  auto &R = vf::report();
  ShapeVar<nostd::variant, A> na;
  ShapeVar<std::variant, A> sa;
  ShapeVar<nostd::variant, B> nb;
  ShapeVar<std::variant, B> sb;
  for (size_t i = 0; i < A; ++i)
    for (size_t j = 0; j < B; ++j)
    {
      int x = static_cast<int>(r.below(1000)), y = static_cast<int>(r.below(1000));
      shape_set<A>(na, i, x);
      shape_set<A>(sa, i, x);
      shape_set<B>(nb, j, y);
      shape_set<B>(sb, j, y);
      std::string a = nostd::visit(ShapeDescribe(), na, nb), b = std::visit(ShapeDescribe(), sa, sb);
      VF_CHECK(a == b, "var-visit-shape", "binary-" + std::to_string(A) + "x" + std::to_string(B),
               "active alternatives (" + std::to_string(i) + "," + std::to_string(j) + "): visit called the visitor as " + a +
                   ", std::visit as " + b);
    }
  R.count("var_visit_shape_combinations", A * B);
}
template <size_t A, size_t B, size_t C>
static void shape_visit3(Rng &r)
{
  auto &R = vf::report();
  ShapeVar<nostd::variant, A> na;
  ShapeVar<std::variant, A> sa;
  ShapeVar<nostd::variant, B> nb;
  ShapeVar<std::variant, B> sb;
  ShapeVar<nostd::variant, C> nc;
  ShapeVar<std::variant, C> sc;
  for (size_t i = 0; i < A; ++i)
    for (size_t j = 0; j < B; ++j)
      for (size_t k = 0; k < C; ++k)
      {
        int x = static_cast<int>(r.below(1000));
        shape_set<A>(na, i, x);
        shape_set<A>(sa, i, x);
        shape_set<B>(nb, j, x + 1);
        shape_set<B>(sb, j, x + 1);
        shape_set<C>(nc, k, x + 2);
        shape_set<C>(sc, k, x + 2);
        std::string a = nostd::visit(ShapeDescribe(), na, nb, nc), b = std::visit(ShapeDescribe(), sa, sb, sc);
        VF_CHECK(a == b, "var-visit-shape", "ternary-" + std::to_string(A) + "x" + std::to_string(B) + "x" + std::to_string(C),
                 "active alternatives (" + std::to_string(i) + "," + std::to_string(j) + "," + std::to_string(k) +
                     "): visit called the visitor as " + a + ", std::visit as " + b);
      }
  R.count("var_visit_shape_combinations", A * B * C);
}
static void visit_shape_program(uint64_t seed)
{
  Rng r(seed);
  // flattened case counts: 3,9,...  unary 2..64 -> 3..65; binary (A+1)(B+1); ternary (A+1)(B+1)(C+1)
  switch (r.below(6))
  {
    case 0:
      shape_visit1<2>(r);
      shape_visit1<31>(r);
      shape_visit1<32>(r);   // 33 cases: the last one the switch handles
      shape_visit1<33>(r);   // 34
      shape_visit1<40>(r);
      shape_visit1<64>(r);   // 65
      break;
    case 1:
      shape_visit2<2, 2>(r);
      shape_visit2<5, 5>(r);  // 36
      shape_visit2<4, 6>(r);  // 35
      shape_visit2<3, 7>(r);  // 32
      break;
    case 2:
      shape_visit2<5, 6>(r);  // 42
      shape_visit2<7, 7>(r);  // 64
      shape_visit2<6, 8>(r);  // 63
      break;
    case 3:
      shape_visit2<8, 7>(r);   // 72
      shape_visit2<10, 9>(r);  // 110
      shape_visit2<1, 32>(r);  // 66
      break;
    case 4:
      shape_visit3<2, 2, 2>(r);  // 27
      shape_visit3<3, 3, 3>(r);  // 64
      shape_visit3<2, 3, 4>(r);  // 60
      break;
    default:
      shape_visit3<3, 3, 2>(r);  // 48
      shape_visit3<4, 4, 3>(r);  // 100
      shape_visit3<1, 1, 15>(r); // 64
  }
  vf::report().count("var_visit_shape_programs");
}

int main(int argc, char **argv)
{
  auto &R = vf::report();
  R.init("C20", argc, argv);
  R.run_cases([&](uint64_t i) {
    uint64_t s = R.case_seed(i);
    sv_program(vf::mix(s, 1));
    span_program(vf::mix(s, 2));
    uptr_program(vf::mix(s, 3));
    sptr_program(vf::mix(s, 4));
    fref_program(vf::mix(s, 5));
    variant_program(vf::mix(s, 6));
    if ((i & 3) == 0)
      visit_shape_program(vf::mix(s, 7));
  });
  return R.finish();
}
