// C14 — TraceState stays a valid, duplicate-free W3C list under every update.
// Engine E1: generated Set/Delete/Get/header programs applied in lock-step to the real
// TraceState and to a reference list model; compared after every step.  ASan+UBSan build,
// all arguments are exact-size non-terminated heap views that are scribbled or freed
// right after the call returns.
#include "opentelemetry/trace/trace_state.h"

#include "vf_core.h"

namespace trace_api = opentelemetry::trace;
namespace nostd     = opentelemetry::nostd;
using vf::Rng;

typedef std::vector<std::pair<std::string, std::string>> List;

// ------------------------------------------------------------------------------------------
// three-valued validity (independent of the implementation)
// ------------------------------------------------------------------------------------------
enum Tri
{
  kInvalid  = 0,
  kValid    = 1,
  kDontCare = 2
};

static bool lc(char c)
{
  return c >= 'a' && c <= 'z';
}
static bool dg(char c)
{
  return c >= '0' && c <= '9';
}
static bool keychar(char c)
{
  return lc(c) || dg(c) || c == '_' || c == '-' || c == '*' || c == '/';
}

static Tri key_validity(const std::string &k)
{
  // most lenient reading (the non-regex variant in the header): 1..256 bytes, first is a
  // lowercase letter or digit, rest from the key alphabet plus at most one '@'
  if (k.empty() || k.size() > 256 || !(lc(k[0]) || dg(k[0])))
    return kInvalid;
  size_t ats = 0, at = std::string::npos;
  for (size_t i = 0; i < k.size(); ++i)
  {
    if (k[i] == '@')
    {
      ++ats;
      at = i;
    }
    else if (!keychar(k[i]))
      return kInvalid;
  }
  if (ats > 1)
    return kInvalid;
  // strict: W3C level 1 and the header comment and the regex variant all agree
  if (ats == 0)
    return lc(k[0]) ? kValid : kDontCare;  // leading digit: level-2 only
  std::string tenant = k.substr(0, at), sys = k.substr(at + 1);
  if (tenant.empty() || tenant.size() > 241 || sys.empty() || sys.size() > 14)
    return kDontCare;
  if (!lc(sys[0]))
    return kDontCare;
  return kValid;
}

static Tri value_validity(const std::string &v)
{
  if (v.empty() || v.size() > 256)
    return kInvalid;
  for (char c : v)
    if (c < 0x20 || c > 0x7e || c == ',' || c == '=')
      return kInvalid;
  if (v.back() == ' ')
    return kDontCare;  // W3C: value ends in a non-blank; the non-regex variant accepts
  return kValid;
}

// ------------------------------------------------------------------------------------------
static List entries(const trace_api::TraceState &ts)
{
  List l;
  ts.GetAllEntries([&l](nostd::string_view k, nostd::string_view v) noexcept {
    l.emplace_back(std::string(k.data(), k.size()), std::string(v.data(), v.size()));
    return true;
  });
  return l;
}

static std::string show_list(const List &l)
{
  std::string s = "[";
  for (size_t i = 0; i < l.size(); ++i)
  {
    if (i)
      s += ",";
    s += vf::show(l[i].first, 40) + "=" + vf::show(l[i].second, 40);
    if (i >= 40)
    {
      s += ",...";
      break;
    }
  }
  return s + "](" + std::to_string(l.size()) + ")";
}

static bool has_dup(const List &l)
{
  std::set<std::string> s;
  for (auto &e : l)
    if (!s.insert(e.first).second)
      return true;
  return false;
}

static std::string size_class(size_t n)
{
  return n < 32 ? "size<32" : (n == 32 ? "size=32" : "size>32");
}

// invariants of every TraceState the API hands out
static void check_members(const List &l, const char *origin)
{
  auto &R = vf::report();
  VF_CHECK(l.size() <= 32, "members-le-32", origin, "size " + std::to_string(l.size()));
  for (auto &e : l)
  {
    if (key_validity(e.first) == kInvalid || value_validity(e.second) == kInvalid)
    {
      R.violation("members-valid", origin, "member " + vf::show(e.first) + "=" + vf::show(e.second));
      break;
    }
  }
}

struct St
{
  nostd::shared_ptr<trace_api::TraceState> ts;
  List model;
  bool dup_free;  // states that came from a header with duplicate keys are not fed to Set/Delete
};

struct Gen
{
  Rng &r;
  std::vector<std::string> keypool, valpool;
  explicit Gen(Rng &rr) : r(rr)
  {
    static const std::string ka = "abcxyz019_-*/";
    size_t nk                   = static_cast<size_t>(r.range(3, 40));
    for (size_t i = 0; i < nk; ++i)
    {
      std::string k(1, static_cast<char>('a' + r.below(26)));
      k += r.bytes(static_cast<size_t>(r.range(0, 6)), ka);
      if (r.chance(1, 8))
        k += "@" + std::string(1, static_cast<char>('a' + r.below(26))) + r.bytes(static_cast<size_t>(r.range(0, 5)), ka);
      keypool.push_back(k);
    }
    for (size_t i = 0; i < 12; ++i)
      valpool.push_back(valid_value(static_cast<size_t>(r.range(1, 12))));
  }
  std::string valid_value(size_t n)
  {
    static const std::string va = "abcXYZ019 !#$%&'()*+-./:;<>?@[]^_`{|}~\\\"";
    std::string v               = r.bytes(n, va);
    if (v.back() == ' ')
      v.back() = 'q';
    return v;
  }
  std::string key()
  {
    unsigned c = static_cast<unsigned>(r.below(100));
    if (c < 70)
      return r.pick(keypool);
    if (c < 74)
      return std::string("a") + r.bytes(255, "abcxyz019_-*/");  // 256: longest valid simple key
    if (c < 77)
      return std::string("a") + r.bytes(256, "abcxyz019_-*/");  // 257: too long
    if (c < 79)
      return std::string("a") + r.bytes(254, "abcxyz019_-*/");  // 255
    if (c < 81)
      return "";
    if (c < 83)
      return std::string(1, static_cast<char>(r.below(256)));  // any single byte
    if (c < 86)
    {
      std::string k = r.pick(keypool);  // one byte corrupted
      k[r.below(k.size())] = static_cast<char>(r.below(256));
      return k;
    }
    if (c < 88)
      return "A" + r.pick(keypool);  // uppercase start
    if (c < 90)
      return std::string("t") + r.bytes(240, "abc019") + "@" + "s" + r.bytes(13, "abc019");  // max multi-tenant
    if (c < 92)
      return std::string("t") + r.bytes(241, "abc019") + "@" + "s" + r.bytes(13, "abc019");  // tenant too long
    if (c < 94)
      return r.pick(keypool) + "@a@b";
    if (c < 96)
      return std::string("9") + r.bytes(static_cast<size_t>(r.range(0, 5)), "abc019");  // leading digit: don't-care
    if (c < 98)
      return r.pick(keypool) + std::string(1, '\0') + "x";  // embedded NUL
    return r.anybytes(static_cast<size_t>(r.range(1, 8)));
  }
  std::string value()
  {
    unsigned c = static_cast<unsigned>(r.below(100));
    if (c < 70)
      return r.coin() ? r.pick(valpool) : valid_value(static_cast<size_t>(r.range(1, 20)));
    if (c < 74)
      return valid_value(256);
    if (c < 77)
      return valid_value(257);
    if (c < 79)
      return valid_value(255);
    if (c < 82)
      return "";
    if (c < 85)
      return valid_value(3) + "," + valid_value(2);
    if (c < 88)
      return valid_value(3) + "=" + valid_value(2);
    if (c < 91)
      return valid_value(3) + std::string(1, static_cast<char>(r.coin() ? r.below(0x20) : 0x7f + r.below(0x81)));
    if (c < 94)
      return valid_value(3) + " ";  // trailing blank: don't-care
    if (c < 96)
      return valid_value(2) + std::string(1, '\0') + "x";
    return r.anybytes(static_cast<size_t>(r.range(1, 8)));
  }
};

// call with exact-size views, then scribble or free the caller storage
template <class F>
static auto with_views(Rng &r, const std::string &a, const std::string &b, F &&f)
{
  vf::Buf ba(a), bb(b);
  auto res = f(nostd::string_view(ba.data(), ba.size()), nostd::string_view(bb.data(), bb.size()));
  if (r.coin())
  {
    ba.scribble();
    bb.scribble();
  }
  else
  {
    ba.release();
    bb.release();
  }
  return res;
}

static void verify_state(const St &s, const char *assertion, const std::string &cls, const std::string &what)
{
  List got = entries(*s.ts);
  if (got != s.model)
    vf::report().violation(assertion, cls, what + ": have " + show_list(got) + " want " + show_list(s.model));
}

// ------------------------------------------------------------------------------------------
// one program of Set/Delete/Get/round-trip ops
// ------------------------------------------------------------------------------------------
static void program(uint64_t seed)
{
  auto &R = vf::report();
  Rng r(seed);
  Gen g(r);
  std::vector<St> pool;
  pool.push_back({trace_api::TraceState::GetDefault(), {}, true});
  size_t nops = static_cast<size_t>(r.range(1, 80));
  // some programs first climb to the 32-member limit
  bool climb     = r.chance(1, 3);
  if (climb)
    nops = 32 + static_cast<size_t>(r.range(10, 60));
  uint64_t chash = 0;
  bool nontrivial = false;
  std::string trace;
  for (size_t op = 0; op < nops; ++op)
  {
    size_t idx = r.chance(3, 4) ? pool.size() - 1 : static_cast<size_t>(r.below(pool.size()));
    if (climb && pool.back().model.size() < 32)
      idx = pool.size() - 1;
    if (!pool[idx].dup_free)
      idx = 0;
    St cur = pool[idx];  // copies the shared_ptr: the object itself is shared, as for a real caller
    unsigned kind = static_cast<unsigned>(r.below(100));
    if (climb && cur.model.size() < 32)
      kind = 0;
    if (kind < 55)
    {
      // ---- Set
      std::string k, v;
      if (climb && cur.model.size() < 32)
      {
        k = "k" + std::to_string(cur.model.size()) + r.bytes(2, "abc");
        v = g.valid_value(3);
        bool present = false;
        for (auto &e : cur.model)
          present |= e.first == k;
        if (present)
          k += "z" + std::to_string(op);
      }
      else
      {
        k = (!cur.model.empty() && r.chance(2, 5)) ? cur.model[r.below(cur.model.size())].first : g.key();
        v = g.value();
      }
      Tri kv = key_validity(k), vv = value_validity(v);
      bool valid;
      bool dontcare = false;
      if (kv == kInvalid || vv == kInvalid)
        valid = false;
      else if (kv == kValid && vv == kValid)
        valid = true;
      else
      {
        // the W3C levels / the two compiled variants disagree: follow the implementation's verdict
        dontcare = true;
        valid    = trace_api::TraceState::IsValidKey(k) && trace_api::TraceState::IsValidValue(v);
        R.count("set_dontcare_validity");
      }
      bool present = false;
      for (auto &e : cur.model)
        present |= e.first == k;
      List want;
      std::string cls = std::string(valid ? (present ? "key-present" : "key-absent") : "invalid-input") + "-" +
                        size_class(cur.model.size());
      if (!valid)
        want = {};
      else if (!present && cur.model.size() >= 32)
        want = cur.model;  // refused with an unchanged copy
      else
      {
        want.emplace_back(k, v);
        for (auto &e : cur.model)
          if (e.first != k)
            want.push_back(e);
      }
      auto res = with_views(r, k, v, [&](nostd::string_view kk, nostd::string_view vvw) { return cur.ts->Set(kk, vvw); });
      List got = entries(*res);
      R.count("op_set");
      if (valid && present)
        R.count("set_present_key");
      if (cur.model.size() == 32)
        R.count("ops_at_size_32");
      if (!valid)
        R.count("set_invalid_input");
      if (got != want)
      {
        std::string d = "Set(" + vf::show(k, 60) + "," + vf::show(v, 60) + ") on " + show_list(cur.model) + " gave " +
                        show_list(got) + " want " + show_list(want);
        if (has_dup(got))
          R.violation("set-no-duplicate", cls, d);
        else if (valid && present && got == cur.model)
          R.violation("set-update-refused", cls, d);
        else if (!valid)
          R.violation("set-invalid-gives-empty", cls + (dontcare ? "" : ""), d);
        else
          R.violation("set-result", cls, d);
      }
      check_members(got, "set");
      verify_state(cur, "original-unchanged", "after-set", "receiver of Set changed");
      // continue from what the implementation returned only if it matches the model, otherwise
      // from a fresh header-built equivalent of the model so one defect does not cascade
      St nxt;
      nxt.model    = want;
      nxt.dup_free = true;
      if (got == want)
        nxt.ts = res;
      else
      {
        std::string h;
        for (auto &e : want)
          h += (h.empty() ? "" : ",") + e.first + "=" + e.second;
        nxt.ts = trace_api::TraceState::FromHeader(h);
        if (entries(*nxt.ts) != want)
          continue;  // cannot rebuild (e.g. don't-care members); stay on the old state
      }
      pool.push_back(nxt);
      nontrivial = true;
      chash      = vf::mix(chash, vf::fnv1a(k) ^ vf::fnv1a(v) * 3 ^ 1);
      if (trace.size() < 300)
        trace += "Set(" + vf::show(k, 16) + "," + vf::show(v, 16) + ") ";
    }
    else if (kind < 75)
    {
      // ---- Delete
      std::string k = (!cur.model.empty() && r.chance(3, 5)) ? cur.model[r.below(cur.model.size())].first : g.key();
      // prefixes / extensions of present keys expose delete-by-prefix
      if (!cur.model.empty() && r.chance(1, 6))
      {
        k = cur.model[r.below(cur.model.size())].first;
        if (r.coin() && k.size() > 1)
          k.pop_back();
        else
          k += "a";
      }
      Tri kv = key_validity(k);
      bool valid = kv == kValid || (kv == kDontCare && trace_api::TraceState::IsValidKey(k));
      List want;
      bool present = false;
      if (valid)
        for (auto &e : cur.model)
        {
          if (e.first != k)
            want.push_back(e);
          else
            present = true;
        }
      vf::Buf kb(k);
      auto res = cur.ts->Delete(nostd::string_view(kb.data(), kb.size()));
      r.coin() ? kb.scribble() : kb.release();
      List got = entries(*res);
      R.count("op_delete");
      if (present)
        R.count("delete_present_key");
      std::string cls = std::string(valid ? (present ? "key-present" : "key-absent") : "invalid-key") + "-" +
                        size_class(cur.model.size());
      if (got != want)
        R.violation("delete-result", cls,
                    "Delete(" + vf::show(k, 60) + ") on " + show_list(cur.model) + " gave " + show_list(got) + " want " +
                        show_list(want));
      check_members(got, "delete");
      verify_state(cur, "original-unchanged", "after-delete", "receiver of Delete changed");
      if (got == want)
        pool.push_back({res, want, true});
      nontrivial = true;
      chash      = vf::mix(chash, vf::fnv1a(k) ^ 2);
      if (trace.size() < 300)
        trace += "Delete(" + vf::show(k, 16) + ") ";
    }
    else if (kind < 88)
    {
      // ---- Get
      std::string k = (!cur.model.empty() && r.chance(3, 5)) ? cur.model[r.below(cur.model.size())].first : g.key();
      Tri kv     = key_validity(k);
      bool valid = kv == kValid || (kv == kDontCare && trace_api::TraceState::IsValidKey(k));
      bool want_found = false;
      std::string want_v;
      if (valid)
        for (auto &e : cur.model)
          if (e.first == k)
          {
            want_found = true;
            want_v     = e.second;
            break;
          }
      std::string out = "sentinel";
      vf::Buf kb(k);
      bool found = cur.ts->Get(nostd::string_view(kb.data(), kb.size()), out);
      kb.release();
      R.count("op_get");
      if (found != want_found || (found && out != want_v))
        R.violation("get-result", want_found ? "key-present" : "key-absent",
                    "Get(" + vf::show(k, 60) + ") on " + show_list(cur.model) + " gave " + (found ? "true," : "false,") +
                        vf::show(out) + " want " + (want_found ? "true," : "false,") + vf::show(want_v));
    }
    else
    {
      // ---- ToHeader / FromHeader round trip
      std::string h = cur.ts->ToHeader();
      vf::Buf hb(h);
      auto back = trace_api::TraceState::FromHeader(nostd::string_view(hb.data(), hb.size()));
      r.coin() ? hb.scribble() : hb.release();
      List got = entries(*back);
      R.count("op_roundtrip");
      if (cur.model.size() >= 10)
        R.count("roundtrip_ge10_members");
      if (got != cur.model)
        R.violation("roundtrip", size_class(cur.model.size()),
                    "FromHeader(ToHeader(x)) of " + show_list(cur.model) + " header " + vf::show(h, 120) + " gave " +
                        show_list(got));
      check_members(got, "roundtrip");
    }
    // periodically re-verify every state ever created (immutability)
    if ((op & 15) == 15)
      for (auto &s : pool)
        verify_state(s, "original-unchanged", "later-recheck", "older state changed");
  }
  for (auto &s : pool)
    verify_state(s, "original-unchanged", "final-recheck", "older state changed");
  if (nontrivial)
    R.nontrivial(chash);
  if (R.want_sample(4))
    R.sample("program: " + trace);
}

// ------------------------------------------------------------------------------------------
// header cases
// ------------------------------------------------------------------------------------------
static void header_case(uint64_t seed)
{
  auto &R = vf::report();
  Rng r(seed);
  Gen g(r);
  // build a list of members, some of them deliberately broken
  size_t n = 0;
  switch (r.below(8))
  {
    case 0:
      n = 31;
      break;
    case 1:
      n = 32;
      break;
    case 2:
      n = 33;
      break;
    case 3:
      n = static_cast<size_t>(r.range(34, 60));
      break;
    default:
      n = static_cast<size_t>(r.range(0, 12));
  }
  List members;
  std::set<std::string> seen;
  bool dup = false, any_invalid = false, any_dontcare = false, missing_eq = false;
  std::string header;
  size_t tokens = 0;
  bool random_bytes = r.chance(1, 12);
  if (random_bytes)
  {
    header = r.chance(1, 2) ? r.anybytes(static_cast<size_t>(r.range(0, 60)))
                            : r.bytes(static_cast<size_t>(r.range(0, 60)), "ab=, \t19@-");
  }
  else
  {
    for (size_t i = 0; i < n; ++i)
    {
      std::string k, v;
      unsigned c = static_cast<unsigned>(r.below(100));
      if (c < 80)
      {
        k = "k" + std::to_string(i) + r.bytes(static_cast<size_t>(r.range(0, 4)), "abcxyz019_-*/");
        v = g.valid_value(static_cast<size_t>(r.range(1, 10)));
      }
      else if (c < 88)
      {
        k = g.key();
        v = g.valid_value(3);
      }
      else if (c < 94)
      {
        k = "k" + std::to_string(i);
        v = g.value();
      }
      else if (c < 97 && !members.empty())
      {
        k = members[r.below(members.size())].first;  // duplicate key in a header: not judged
        v = g.valid_value(3);
      }
      else
      {
        k = "k" + std::to_string(i);
        v = g.valid_value(3);
      }
      // a member containing the separators cannot be expressed; keep the generator honest
      if (k.find(',') != std::string::npos || k.find('=') != std::string::npos || v.find(',') != std::string::npos)
      {
        k = "k" + std::to_string(i);
        v = "v";
      }
      // leading/trailing blanks of a member are trimmed by the list grammar
      while (!v.empty() && isspace(static_cast<unsigned char>(v.back())))
        v.pop_back();
      while (!k.empty() && isspace(static_cast<unsigned char>(k.front())))
        k.erase(k.begin());
      std::string member;
      if (r.chance(1, 40))
      {
        member     = k.empty() ? "x" : k;  // no '='
        if (member.find('=') == std::string::npos)
        {
          bool blank = true;
          for (char ch : member)
            blank &= isspace(static_cast<unsigned char>(ch)) != 0;
          if (!blank)
            missing_eq = true;
        }
      }
      else
      {
        member = k + "=" + v;
        Tri kv = key_validity(k), vv = value_validity(v);
        if (kv == kInvalid || vv == kInvalid)
          any_invalid = true;
        else if (kv == kDontCare || vv == kDontCare)
          any_dontcare = true;
        if (!seen.insert(k).second)
          dup = true;
        members.emplace_back(k, v);
      }
      // OWS and empty members
      std::string pre = r.chance(1, 5) ? std::string(static_cast<size_t>(r.range(1, 3)), r.coin() ? ' ' : '\t') : "";
      std::string post = r.chance(1, 5) ? std::string(static_cast<size_t>(r.range(1, 3)), r.coin() ? ' ' : '\t') : "";
      if (!header.empty() || tokens)
        header += ",";
      header += pre + member + post;
      ++tokens;
      if (r.chance(1, 25))
      {
        header += r.coin() ? "," : ", ";
        ++tokens;  // an empty member
      }
    }
  }
  vf::Buf hb(header);
  auto ts = trace_api::TraceState::FromHeader(nostd::string_view(hb.data(), hb.size()));
  r.coin() ? hb.scribble() : hb.release();
  List got = entries(*ts);
  R.count("headers");
  check_members(got, "fromheader");
  uint64_t h = vf::fnv1a(header);
  if (random_bytes)
  {
    R.count("headers_random_bytes");
    R.nontrivial(h);
    return;
  }
  std::string cls;
  if (missing_eq || any_invalid)
  {
    cls = missing_eq ? "member-without-eq" : "invalid-member";
    R.count("headers_invalid");
    if (!got.empty())
      R.violation("fromheader-invalid-gives-empty", cls, "header " + vf::show(header, 300) + " gave " + show_list(got));
  }
  else if (members.size() > 32)
  {
    cls = "more-than-32-members";
    R.count("headers_over_32");
    if (!got.empty())
      R.violation("fromheader-overlong-gives-empty", cls,
                  "header with " + std::to_string(members.size()) + " members gave " + show_list(got));
  }
  else if (dup || any_dontcare)
  {
    R.count("headers_dontcare");
  }
  else if (tokens > 32)
  {
    // <=32 real members but >32 list positions because of empty members: full list or empty both accepted
    R.count("headers_dontcare");
    if (!got.empty() && got != members)
      R.violation("fromheader-result", "empty-members-over-32-tokens",
                  "header " + vf::show(header, 300) + " gave " + show_list(got) + " want " + show_list(members));
  }
  else
  {
    cls = "valid-" + size_class(members.size());
    R.count("headers_valid");
    if (got != members)
      R.violation("fromheader-result", cls,
                  "header " + vf::show(header, 300) + " gave " + show_list(got) + " want " + show_list(members));
    // and it must round-trip
    auto back = trace_api::TraceState::FromHeader(ts->ToHeader());
    if (entries(*back) != members)
      R.violation("roundtrip", cls, "header " + vf::show(header, 300));
  }
  R.nontrivial(h);
  if (R.want_sample(6) && (r.chance(1, 50)))
    R.sample("header: " + vf::show(header, 160));
}

// Directed: near-maximal lists (from seeded change C14-w5-1) - 28..32 members whose keys and values are all at or
// just below the 256-character limits.  Such a header (up to 32 * 513 + 31 = 16447 bytes) is valid: it must parse
// into exactly its members and ToHeader/FromHeader must reproduce the same ordered list.
static void near_max_case(uint64_t seed)
{
  auto &R = vf::report();
  Rng r(seed);
  Gen g(r);
  size_t n = static_cast<size_t>(r.range(28, 32));
  List members;
  std::set<std::string> seen;
  std::string header;
  for (size_t i = 0; i < n; ++i)
  {
    size_t kl = 256 - static_cast<size_t>(r.below(3)), vl = 256 - static_cast<size_t>(r.below(3));
    std::string k;
    do
    {
      k = std::string(1, static_cast<char>('a' + r.below(26))) + r.bytes(kl - 1, "abcxyz019_-*/");
    } while (!seen.insert(k).second);
    std::string v = g.valid_value(vl);
    if (v[0] == ' ')
      v[0] = 'q';
    members.emplace_back(k, v);
    header += (i ? "," : "") + k + "=" + v;
  }
  vf::Buf hb(header);
  auto ts = trace_api::TraceState::FromHeader(nostd::string_view(hb.data(), hb.size()));
  r.coin() ? hb.scribble() : hb.release();
  List got = entries(*ts);
  R.count("headers_near_max");
  if (header.size() > 16384)
    R.count("headers_near_max_over_16384_bytes");
  check_members(got, "fromheader");
  std::string cls = "valid-near-max-" + size_class(members.size());
  std::string what = "header of " + std::to_string(header.size()) + " bytes, " + std::to_string(n) + " members with keys/values of 254..256 characters";
  if (got != members)
    R.violation("fromheader-result", cls, what + " gave " + std::to_string(got.size()) + " members");
  else
  {
    auto back = trace_api::TraceState::FromHeader(ts->ToHeader());
    if (entries(*back) != members)
      R.violation("roundtrip", cls, what);
  }
  R.nontrivial(vf::fnv1a(header));
}

int main(int argc, char **argv)
{
  auto &R = vf::report();
  R.init("C14", argc, argv);
  uint64_t header_per_program = static_cast<uint64_t>(R.opt.param("headers_per_program", 4));
  R.run_cases([&](uint64_t i) {
    program(R.case_seed(i));
    for (uint64_t j = 0; j < header_per_program; ++j)
      header_case(vf::mix(R.case_seed(i), 1000 + j));
    if (i % 4 == 0)
      near_max_case(vf::mix(R.case_seed(i), 77));
  });
  return R.finish();
}
