// C15 — baggage round-trips through its header; composite propagators apply every part.
// Engine E1: (a) generated Set/Delete/Get/round-trip programs applied in lock-step to the real
// Baggage and to a reference list model, (b) generated and arbitrary-byte headers judged by an
// independent three-valued reference parser (percent codec, OWS, limits 180/4096/8192),
// (c) every ordered subset (size <= 4) of the five built-in propagators in a CompositePropagator
// compared with folding the parts by hand.  ASan+UBSan build; every string handed to the API is
// an exact-size non-terminated heap view that is scribbled or freed right after the call; the
// carriers return exact-size views and deep-copy on Set.
#include "opentelemetry/baggage/baggage.h"
#include "opentelemetry/baggage/baggage_context.h"
#include "opentelemetry/baggage/propagation/baggage_propagator.h"
#include "opentelemetry/context/propagation/composite_propagator.h"
#include "opentelemetry/context/propagation/global_propagator.h"
#include "opentelemetry/trace/default_span.h"
#include "opentelemetry/trace/propagation/b3_propagator.h"
#include "opentelemetry/trace/propagation/http_trace_context.h"
#include "opentelemetry/trace/propagation/jaeger.h"
#include "opentelemetry/trace/span_context.h"

#include <memory>

#include "vf_core.h"

namespace baggage   = opentelemetry::baggage;
namespace context   = opentelemetry::context;
namespace trace_api = opentelemetry::trace;
namespace nostd     = opentelemetry::nostd;
using vf::Rng;

typedef std::pair<std::string, std::string> Entry;
typedef std::vector<Entry> List;

// ------------------------------------------------------------------------------------------
// the property's notion of validity and the reference percent codec (independent of baggage.h)
// ------------------------------------------------------------------------------------------
static bool printable(unsigned char c)
{
  return c >= 0x20 && c <= 0x7e;
}
static bool all_printable(const std::string &s)
{
  for (unsigned char c : s)
    if (!printable(c))
      return false;
  return true;
}
static bool valid_key(const std::string &k)
{
  return !k.empty() && all_printable(k);
}
static bool valid_value(const std::string &v)
{
  return all_printable(v);
}
static bool unreserved(unsigned char c)
{
  return (c >= 'a' && c <= 'z') || (c >= 'A' && c <= 'Z') || (c >= '0' && c <= '9') || c == '-' || c == '_' ||
         c == '.' || c == '~';
}
static int hexval(unsigned char c)
{
  if (c >= '0' && c <= '9')
    return c - '0';
  if (c >= 'a' && c <= 'f')
    return c - 'a' + 10;
  if (c >= 'A' && c <= 'F')
    return c - 'A' + 10;
  return -1;
}

// reference encoder: unreserved characters raw (sometimes escaped anyway), everything else %XX with
// either hex case, blank as '+' or %20 — all spellings the decoder of the statement must accept
static std::string ref_encode(const std::string &s, Rng &r)
{
  static const char *up = "0123456789ABCDEF", *lo = "0123456789abcdef";
  std::string o;
  for (unsigned char c : s)
  {
    if (unreserved(c) && !r.chance(1, 16))
      o.push_back(static_cast<char>(c));
    else if (c == ' ' && r.coin())
      o.push_back('+');
    else
    {
      const char *d = r.coin() ? up : lo;
      o.push_back('%');
      o.push_back(d[c >> 4]);
      o.push_back(d[c & 15]);
    }
  }
  return o;
}

static std::string encode_member(const Entry &e, Rng &r)
{
  size_t sc = e.second.find(';');
  if (sc == std::string::npos)
    return ref_encode(e.first, r) + "=" + ref_encode(e.second, r);
  return ref_encode(e.first, r) + "=" + ref_encode(e.second.substr(0, sc), r) + e.second.substr(sc);
}

enum Tri
{
  kMustDrop = 0,
  kMustKeep = 1,
  kDontCare = 2
};

struct Dec
{
  int st = 0;  // 0 ok, 1 don't-care, 2 bad
  std::string why;
  std::vector<std::string> alts;  // '+' read as blank (the codec of the statement) / literally
  std::string lenient;            // best-effort decoding even when bad (to recognise a wrongly kept member)
};

static Dec ref_decode(const std::string &s)
{
  Dec d;
  std::string a, b;
  bool plus = false;
  auto note = [&](int st, const char *why) {
    if (st > d.st)
    {
      d.st  = st;
      d.why = why;
    }
  };
  for (size_t i = 0; i < s.size(); ++i)
  {
    unsigned char c = static_cast<unsigned char>(s[i]);
    if (c == '%')
    {
      int h1 = i + 1 < s.size() ? hexval(static_cast<unsigned char>(s[i + 1])) : -1;
      int h2 = i + 2 < s.size() ? hexval(static_cast<unsigned char>(s[i + 2])) : -1;
      if (h1 < 0 || h2 < 0)
      {
        note(2, "bad-escape");
        a.push_back('%');
        b.push_back('%');
        continue;
      }
      unsigned char v = static_cast<unsigned char>(h1 * 16 + h2);
      if (!printable(v))
        note(2, "escape-nonprintable");
      a.push_back(static_cast<char>(v));
      b.push_back(static_cast<char>(v));
      i += 2;
    }
    else if (c == '+')
    {
      plus = true;
      a.push_back(' ');
      b.push_back('+');
    }
    else if (unreserved(c))
    {
      a.push_back(static_cast<char>(c));
      b.push_back(static_cast<char>(c));
    }
    else if (printable(c))
    {
      // a printable character outside the codec's alphabet, unescaped: the statement does not say
      // whether such a member is kept
      note(1, c == ' ' ? "inner-space" : "raw-reserved");
      a.push_back(static_cast<char>(c));
      b.push_back(static_cast<char>(c));
    }
    else
    {
      note(2, "raw-nonprintable");
      a.push_back(static_cast<char>(c));
      b.push_back(static_cast<char>(c));
    }
  }
  d.lenient = a;
  d.alts.push_back(a);
  if (plus)
    d.alts.push_back(b);
  return d;
}

static std::string trim_set(const std::string &s, const char *set)
{
  size_t b = 0, e = s.size();
  while (b < e && strchr(set, s[b]) && s[b] != '\0')
    ++b;
  while (e > b && strchr(set, s[e - 1]) && s[e - 1] != '\0')
    --e;
  return s.substr(b, e - b);
}
static const char *kOws   = " \t";            // RFC 7230 optional white space
static const char *kSpace = " \t\n\v\f\r";    // the wider class some parsers trim

struct RefMember
{
  Tri tri = kMustDrop;
  std::string why;
  std::vector<std::string> keys, values;  // acceptable decodings when kept
  std::string lenient_key, lenient_value;  // best-effort reading of a member that must be dropped
  std::string meta;                        // raw text from the first ';' of the value
  size_t size = 0;
};

struct RefParse
{
  bool too_long = false;
  std::vector<RefMember> members;
};

static RefParse ref_parse(const std::string &header)
{
  RefParse p;
  if (header.size() > 8192)
  {
    p.too_long = true;
    return p;
  }
  size_t pos = 0;
  while (pos <= header.size())
  {
    size_t comma      = header.find(',', pos);
    std::string piece = header.substr(pos, comma == std::string::npos ? std::string::npos : comma - pos);
    pos               = comma == std::string::npos ? header.size() + 1 : comma + 1;
    std::string s = trim_set(piece, kOws), l = trim_set(piece, kSpace);
    bool ws_dc = s != l;
    if (l.empty())
      continue;  // empty list member
    RefMember m;
    m.size    = l.size();
    size_t eq = l.find('=');
    if (eq == std::string::npos)
    {
      m.tri = kMustDrop;
      m.why = "no-eq";
      p.members.push_back(m);
      continue;
    }
    std::string kraw = l.substr(0, eq), vraw = l.substr(eq + 1);
    size_t sc         = vraw.find(';');
    std::string vpart = sc == std::string::npos ? vraw : vraw.substr(0, sc);
    std::string meta  = sc == std::string::npos ? "" : vraw.substr(sc);
    std::string kt = trim_set(kraw, kSpace), vt = trim_set(vpart, kSpace);
    if (kt != trim_set(kraw, kOws) || vt != trim_set(vpart, kOws))
      ws_dc = true;
    Dec kd = ref_decode(kt), vd = ref_decode(vt);
    m.lenient_key   = kd.lenient;
    m.lenient_value = vd.lenient + meta;
    m.meta          = meta;
    int st        = 0;
    std::string why = "plain";
    auto note = [&](int s2, const std::string &w) {
      if (s2 > st)
      {
        st  = s2;
        why = w;
      }
    };
    if (kd.alts.size() > 1 || vd.alts.size() > 1)
      why = "plus";
    else if (kt.find('%') != std::string::npos || vt.find('%') != std::string::npos)
      why = "escaped";
    if (!meta.empty() && st == 0)
      why = why == "plain" ? "meta" : why + "+meta";
    if (ws_dc)
      note(1, "ctl-whitespace-trim");
    note(kd.st, "key-" + kd.why);
    note(vd.st, "value-" + vd.why);
    if (kd.st < 2 && kd.alts[0].empty())
      note(2, "empty-key");
    if (!all_printable(meta))
      note(2, "meta-nonprintable");
    if (st < 2)
    {
      // "4096-byte member": the whole list member (with '=') or key plus value — one byte apart
      if (m.size > 4097)
        note(2, "member-over-4096");
      else if (m.size == 4097)
        note(1, "member-4097");
    }
    m.tri = st == 2 ? kMustDrop : (st == 1 ? kDontCare : kMustKeep);
    m.why = why;
    m.keys = kd.alts;
    for (auto &v : vd.alts)
      m.values.push_back(v + meta);
    p.members.push_back(m);
  }
  return p;
}

// the storage is a C string: a wrongly kept member shows up cut at its first NUL
static std::string cstr(const std::string &s)
{
  return s.substr(0, s.find('\0'));
}
static bool wrongly_kept(const RefMember &m, const Entry &e)
{
  return m.tri == kMustDrop && !m.lenient_key.empty() && e.first == cstr(m.lenient_key) && e.second == cstr(m.lenient_value);
}
static bool matches(const RefMember &m, const Entry &e)
{
  return std::find(m.keys.begin(), m.keys.end(), e.first) != m.keys.end() &&
         std::find(m.values.begin(), m.values.end(), e.second) != m.values.end();
}
// An entry that a member which may be kept accounts for is never attributed to a dropped member that merely
// reads the same once cut at a NUL ("k41%00=" next to a genuine "k41=").  A really kept bad member then shows
// up as one entry too many (extract-result/unexplained-entry).
static bool explained_by_valid(const std::vector<RefMember> &ms, const Entry &e)
{
  for (auto &m : ms)
    if (m.tri != kMustDrop && matches(m, e))
      return true;
  return false;
}
static std::string explained_by_dropped(const std::vector<RefMember> &ms, const Entry &e)
{
  if (explained_by_valid(ms, e))
    return "";
  for (auto &m : ms)
    if (wrongly_kept(m, e))
      return m.why;
  return "";
}

// ------------------------------------------------------------------------------------------
// carrier: exact-size views out, deep copy in
// ------------------------------------------------------------------------------------------
class Carrier : public context::propagation::TextMapCarrier
{
public:
  Carrier() : empty_("", 0) {}
  nostd::string_view Get(nostd::string_view key) const noexcept override
  {
    std::string k(key.data(), key.size());
    for (auto &e : kv_)
      if (e.first == k)
        return nostd::string_view(e.second->data(), e.second->size());
    return nostd::string_view(empty_.data(), 0);
  }
  void Set(nostd::string_view key, nostd::string_view value) noexcept override
  {
    put(std::string(key.data(), key.size()), std::string(value.data(), value.size()));
  }
  void put(const std::string &k, const std::string &v)
  {
    for (auto &e : kv_)
      if (e.first == k)
      {
        e.second.reset(new vf::Buf(v));
        return;
      }
    kv_.emplace_back(k, std::unique_ptr<vf::Buf>(new vf::Buf(v)));
  }
  bool has(const std::string &k) const
  {
    for (auto &e : kv_)
      if (e.first == k)
        return true;
    return false;
  }
  std::string get(const std::string &k) const
  {
    for (auto &e : kv_)
      if (e.first == k)
        return std::string(e.second->data(), e.second->size());
    return "";
  }
  std::map<std::string, std::string> snapshot() const
  {
    std::map<std::string, std::string> m;
    for (auto &e : kv_)
      m[e.first] = std::string(e.second->data(), e.second->size());
    return m;
  }
  // the transport's buffers go away once extraction returned
  void kill(bool free_them)
  {
    for (auto &e : kv_)
      free_them ? e.second->release() : e.second->scribble();
    if (free_them)
      kv_.clear();
  }

private:
  std::vector<std::pair<std::string, std::unique_ptr<vf::Buf>>> kv_;
  vf::Buf empty_;
};

// ------------------------------------------------------------------------------------------
static List entries(const baggage::Baggage &b)
{
  List l;
  b.GetAllEntries([&l](nostd::string_view k, nostd::string_view v) noexcept {
    l.emplace_back(std::string(k.data(), k.size()), std::string(v.data(), v.size()));
    return true;
  });
  return l;
}

static std::string show_list(const List &l)
{
  std::string s = "[";
  for (size_t i = 0; i < l.size(); ++i)
  {
    if (i)
      s += " , ";
    s += vf::show(l[i].first, 40) + " = " + vf::show(l[i].second, 40);
    if (i >= 12)
    {
      s += " ,...";
      break;
    }
  }
  return s + "](" + std::to_string(l.size()) + ")";
}

// canonical class of an entry by the most demanding feature it carries
static std::string entry_class(const Entry &e)
{
  size_t sc         = e.second.find(';');
  std::string vpart = sc == std::string::npos ? e.second : e.second.substr(0, sc);
  std::string both  = e.first + vpart;
  if (sc != std::string::npos)
    return "metadata";
  if (both.find('%') != std::string::npos)
    return "percent";
  if (both.find('+') != std::string::npos)
    return "plus";
  if (both.find(' ') != std::string::npos)
    return "blank";
  if (both.find_first_of("=,;") != std::string::npos)
    return "separator";
  for (unsigned char c : both)
    if (!unreserved(c))
      return "reserved";
  return e.second.empty() ? "empty-value" : "plain";
}

static const Entry *first_difference(const List &got, const List &want)
{
  for (size_t i = 0; i < want.size(); ++i)
    if (i >= got.size() || got[i] != want[i])
      return &want[i];
  return nullptr;
}

static void check_members_valid(const List &l, const char *assertion, const std::string &origin)
{
  for (auto &e : l)
  {
    if (!valid_key(e.first))
    {
      vf::report().violation(assertion, origin + ":key", "member " + vf::show(e.first) + " = " + vf::show(e.second));
      return;
    }
    if (!valid_value(e.second))
    {
      size_t sc = e.second.find(';');
      bool meta = sc != std::string::npos && all_printable(e.second.substr(0, sc));
      vf::report().violation(assertion, origin + (meta ? ":metadata-nonprintable" : ":value"),
                             "member " + vf::show(e.first) + " = " + vf::show(e.second));
      return;
    }
  }
}

template <class F>
static auto with_views(Rng &r, const std::string &a, const std::string &b, F &&f)
{
  vf::Buf ba(a), bb(b);
  nostd::string_view va(ba.data(), ba.size()), vb(bb.data(), bb.size());
  auto res = f(va, vb);
  if (r.coin())
  {
    ba.scribble();
    bb.scribble();
  }
  else
  {
    ba.release();
    bb.release();
  }
  return res;
}

static const char *kMarker = "vf.marker";

static context::Context base_context(int64_t marker)
{
  return context::Context(kMarker, context::ContextValue(marker));
}
static bool marker_ok(const context::Context &c, int64_t marker)
{
  auto v = c.GetValue(kMarker);
  return nostd::holds_alternative<int64_t>(v) && nostd::get<int64_t>(v) == marker;
}

// ------------------------------------------------------------------------------------------
// generators
// ------------------------------------------------------------------------------------------
struct Gen
{
  Rng &r;
  std::vector<std::string> keypool;
  explicit Gen(Rng &rr) : r(rr)
  {
    size_t nk = static_cast<size_t>(r.range(2, 14));
    for (size_t i = 0; i < nk; ++i)
      keypool.push_back(fresh_key());
  }
  // printable alphabet with heavy weight on the characters the codec treats specially
  std::string text(size_t n)
  {
    static const std::string special = " =,%+;", safe = "-_.~", alnum = "abcxyzABZ0179", other = "/:\"\\!#$&'()*<>?@[]^`{|}";
    std::string s;
    for (size_t i = 0; i < n; ++i)
    {
      unsigned c = static_cast<unsigned>(r.below(100));
      const std::string &a = c < 35 ? special : (c < 50 ? safe : (c < 85 ? alnum : other));
      s.push_back(a[r.below(a.size())]);
    }
    return s;
  }
  std::string fresh_key()
  {
    std::string k = text(static_cast<size_t>(r.range(1, 8)));
    return k;
  }
  std::string key()
  {
    unsigned c = static_cast<unsigned>(r.below(100));
    if (c < 70)
      return r.pick(keypool);
    if (c < 80)
      return fresh_key();
    if (c < 86)
    {
      std::string k = r.pick(keypool);  // prefix / extension of a pool key
      if (r.coin() && k.size() > 1)
        k.pop_back();
      else
        k += text(1);
      return k;
    }
    if (c < 89)
      return text(static_cast<size_t>(r.range(20, 120)));
    if (c < 92)
      return std::string(1, "%+ =,;~"[r.below(7)]);
    // ---- outside the statement's domain: counted, only invariants are checked
    if (c < 94)
      return "";
    if (c < 96)
      return r.pick(keypool) + std::string(1, static_cast<char>(r.coin() ? r.below(0x20) : 0x7f + r.below(0x81)));
    if (c < 98)
      return r.pick(keypool) + std::string(1, '\0') + "x";
    return r.anybytes(static_cast<size_t>(r.range(1, 6)));
  }
  std::string metadata()
  {
    static const std::string ma = "abcXY019=;-_.~%+ /:\"\\!#";
    std::string m               = ";" + r.bytes(static_cast<size_t>(r.range(0, 10)), ma);
    unsigned c                  = static_cast<unsigned>(r.below(100));
    if (c < 6)
      m += "," + r.bytes(2, ma);  // excluded by the statement: separator after ';'
    else if (c < 12)
      m += " ";  // excluded: trailing OWS cannot survive any header grammar
    else if (m.back() == ' ')
      m.back() = 'q';
    return m;
  }
  std::string value()
  {
    unsigned c = static_cast<unsigned>(r.below(100));
    std::string v;
    if (c < 8)
      v = "";
    else if (c < 80)
      v = text(static_cast<size_t>(r.range(1, 16)));
    else if (c < 84)
      v = text(static_cast<size_t>(r.range(100, 600)));
    else if (c < 87)
      v = std::string(1, "%+ =,~"[r.below(6)]);
    else if (c < 90)
      v = r.coin() ? "%4" : "%zz+%";  // looks like a broken escape, is plain text
    // ---- outside the statement's domain
    else if (c < 93)
      return text(2) + std::string(1, static_cast<char>(r.coin() ? r.below(0x20) : 0x7f + r.below(0x81)));
    else if (c < 95)
      return text(2) + std::string(1, '\0') + "x";
    else
      v = text(static_cast<size_t>(r.range(1, 6)));
    // no ';' yet unless text() produced one; a quarter of the values carry explicit metadata
    if (r.chance(1, 4))
    {
      std::string m = metadata();
      // keep the part before the first ';' free of ';' so that `m` really is the metadata
      for (auto &ch : v)
        if (ch == ';')
          ch = ':';
      v += m;
    }
    // values outside the statement's domain (',' after the first ';', metadata ending in a blank)
    // are kept only occasionally; they are counted and not judged for the round trip
    size_t sc = v.find(';');
    if (sc != std::string::npos && !r.chance(1, 4))
    {
      for (size_t i = sc; i < v.size(); ++i)
        if (v[i] == ',')
          v[i] = '.';
      if (v.back() == ' ')
        v.back() = 'q';
    }
    return v;
  }
};

// domain restriction of the statement, applied to one value
static const char *excluded_value(const std::string &v)
{
  size_t sc = v.find(';');
  if (sc == std::string::npos)
    return nullptr;
  if (v.find(',', sc) != std::string::npos)
    return "meta-comma";
  if (v.back() == ' ')
    return "meta-trailing-ows";
  return nullptr;
}

struct St
{
  nostd::shared_ptr<baggage::Baggage> b;
  List model;
};

static nostd::shared_ptr<baggage::Baggage> rebuild(const List &model)
{
  // build a baggage equal to the model through Set (last entry first, as Set puts new keys in front
  // in the implementation; verified by the caller)
  nostd::shared_ptr<baggage::Baggage> b(new baggage::Baggage());
  for (size_t i = model.size(); i-- > 0;)
    b = b->Set(model[i].first, model[i].second);
  return b;
}

// ------------------------------------------------------------------------------------------
// canonical input class of a failed round trip: the smallest single-member probe that fails the
// same way (character class and position), found by re-running the failing path on one-member
// baggages.  Only names the class — the verdict was already taken on the original input.
// ------------------------------------------------------------------------------------------
static const char *char_class(unsigned char c)
{
  switch (c)
  {
    case ' ':
      return "blank";
    case '+':
      return "plus";
    case '%':
      return "percent";
    case '=':
      return "eq";
    case ',':
      return "comma";
    case ';':
      return "semicolon";
    default:
      return unreserved(c) ? "unreserved" : "reserved";
  }
}

// at the first / last position only the spelling matters
static const char *coarse_class(unsigned char c)
{
  return c == ' ' ? "blank" : (unreserved(c) ? "unreserved" : "escaped");
}

enum Path
{
  kPathRoundtrip,  // implementation's Extract over the implementation's Inject
  kPathInject      // reference parser over the implementation's Inject
};

static bool probe(Path path, const Entry &e)
{
  nostd::shared_ptr<baggage::Baggage> b(new baggage::Baggage());
  b = b->Set(e.first, e.second);
  context::Context c0;
  context::Context ctx = baggage::SetBaggage(c0, b);
  baggage::propagation::BaggagePropagator prop;
  Carrier car;
  prop.Inject(car, ctx);
  List want{e};
  if (path == kPathInject)
  {
    List via;
    for (auto &m : ref_parse(car.get("baggage")).members)
      if (m.tri == kMustKeep)
        via.emplace_back(m.keys[0], m.values[0]);
    return via == want;
  }
  context::Context in;
  context::Context out = prop.Extract(car, in);
  return entries(*baggage::GetBaggage(out)) == want;
}

static bool probe_header(const std::string &header, const Entry &e)
{
  baggage::propagation::BaggagePropagator prop;
  Carrier car;
  car.put("baggage", header);
  context::Context in;
  context::Context out = prop.Extract(car, in);
  return entries(*baggage::GetBaggage(out)) == List{e};
}

static std::string distinct_chars(const std::string &s)
{
  std::string d;
  for (char c : s)
    if (d.find(c) == std::string::npos)
      d.push_back(c);
  return d;
}

static std::string diagnose(Path path, const List &got, const List &want)
{
  const Entry *e = first_difference(got, want);
  if (!e)
    return "extra-entry";
  size_t sc         = e->second.find(';');
  std::string vpart = sc == std::string::npos ? e->second : e->second.substr(0, sc);
  std::string meta  = sc == std::string::npos ? "" : e->second.substr(sc);
  for (char c : distinct_chars(e->first))
    if (!probe(path, Entry(std::string("p") + c + "q", "v")))
      return std::string("key-char-") + char_class(static_cast<unsigned char>(c));
  for (char c : distinct_chars(vpart))
    if (!probe(path, Entry("p", std::string("v") + c + "w")))
      return std::string("value-char-") + char_class(static_cast<unsigned char>(c));
  if (!e->first.empty())
  {
    if (!probe(path, Entry(std::string("p") + e->first.back(), "v")))
      return std::string("key-last-char-") + coarse_class(static_cast<unsigned char>(e->first.back()));
    if (!probe(path, Entry(std::string(1, e->first.front()) + "q", "v")))
      return std::string("key-first-char-") + coarse_class(static_cast<unsigned char>(e->first.front()));
  }
  if (!vpart.empty())
  {
    if (!probe(path, Entry("p", std::string("v") + vpart.back())))
      return std::string("value-last-char-") + coarse_class(static_cast<unsigned char>(vpart.back()));
    if (!probe(path, Entry("p", std::string(1, vpart.front()) + "w")))
      return std::string("value-first-char-") + coarse_class(static_cast<unsigned char>(vpart.front()));
  }
  else if (!probe(path, Entry("p", "")))
    return "empty-value";
  if (!meta.empty() && !probe(path, Entry("p", "v" + meta)))
    return "metadata";
  if (!probe(path, *e))
    return "member-" + entry_class(*e);
  return std::string("list-") + (want.size() >= 179 ? "179-or-more" : (want.size() >= 2 ? "2-or-more" : "1")) + "-members";
}

// the same for a header written by the reference encoder: which spelling of which character class
// is not read back
static std::string diagnose_spelling(const List &got, const List &want)
{
  const Entry *e = first_difference(got, want);
  if (!e)
    return "extra-entry";
  size_t sc         = e->second.find(';');
  std::string vpart = sc == std::string::npos ? e->second : e->second.substr(0, sc);
  std::string meta  = sc == std::string::npos ? "" : e->second.substr(sc);
  auto spellings = [](unsigned char c) {
    static const char *up = "0123456789ABCDEF", *lo = "0123456789abcdef";
    std::vector<std::pair<std::string, std::string>> v;
    if (unreserved(c))
      v.emplace_back("raw", std::string(1, static_cast<char>(c)));
    if (c == ' ')
      v.emplace_back("as-plus", "+");
    v.emplace_back("pct-upper", std::string("%") + up[c >> 4] + up[c & 15]);
    v.emplace_back("pct-lower", std::string("%") + lo[c >> 4] + lo[c & 15]);
    return v;
  };
  for (int where = 0; where < 2; ++where)
    for (char c : distinct_chars(where == 0 ? e->first : vpart))
      for (auto &sp : spellings(static_cast<unsigned char>(c)))
      {
        std::string lit(1, c);
        bool mid = where == 0 ? probe_header("p" + sp.second + "q=v", Entry("p" + lit + "q", "v"))
                              : probe_header("p=v" + sp.second + "w", Entry("p", "v" + lit + "w"));
        if (!mid)
          return std::string(where == 0 ? "key-" : "value-") + char_class(static_cast<unsigned char>(c)) + "-" + sp.first;
        bool last = where == 0 ? probe_header("p" + sp.second + "=v", Entry("p" + lit, "v"))
                               : probe_header("p=v" + sp.second, Entry("p", "v" + lit));
        if (!last)
          return std::string(where == 0 ? "key-" : "value-") + "last-char-" + sp.first;
      }
  if (!meta.empty() && !probe_header("p=v" + meta, Entry("p", "v" + meta)))
    return "metadata";
  if (vpart.empty() && !probe_header("p=", Entry("p", "")))
    return "empty-value";
  {
    Rng fixed(1);
    if (!probe_header(encode_member(*e, fixed), *e))
      return "member-" + entry_class(*e);
  }
  return std::string("list-") + (want.size() >= 179 ? "179-or-more" : (want.size() >= 2 ? "2-or-more" : "1")) + "-members";
}

// ------------------------------------------------------------------------------------------
// round trip of one state through the propagator
// ------------------------------------------------------------------------------------------
static void roundtrip(Rng &r, const St &cur)
{
  auto &R = vf::report();
  R.count("op_roundtrip");
  int64_t marker        = static_cast<int64_t>(r.next() >> 1);
  context::Context ctx0 = base_context(marker);
  context::Context ctx  = baggage::SetBaggage(ctx0, cur.b);
  baggage::propagation::BaggagePropagator prop;
  Carrier car;
  prop.Inject(car, ctx);
  bool present       = car.has("baggage");
  std::string header = car.get("baggage");

  // which statement classes does this baggage fall in?
  const char *excl = nullptr;
  for (auto &e : cur.model)
    if (const char *x = excluded_value(e.second))
      excl = x;
  bool limits = cur.model.size() > 180 || header.size() > 8192;
  {
    size_t pos = 0;
    while (pos <= header.size())
    {
      size_t c = header.find(',', pos);
      size_t n = (c == std::string::npos ? header.size() : c) - pos;
      if (n > 4096)
        limits = true;
      pos = c == std::string::npos ? header.size() + 1 : c + 1;
    }
  }
  bool any_meta = false, any_esc = false;
  for (auto &e : cur.model)
  {
    any_meta |= e.second.find(';') != std::string::npos;
    for (unsigned char c : e.first + e.second)
      any_esc |= !unreserved(c);
  }

  if (cur.model.empty())
  {
    R.count("roundtrip_empty_baggage");
    if (present && !header.empty())
      R.violation("inject-result", "empty-baggage", "empty baggage injected header " + vf::show(header));
  }

  // (1) the injected header, read by the independent parser, is the model
  if (excl)
    R.count(std::string("roundtrip_excluded_") + excl);
  else if (limits)
    R.count("roundtrip_excluded_over_limits");
  else
  {
    R.count("roundtrip_judged");
    if (any_meta)
      R.count("roundtrip_with_metadata");
    if (any_esc)
      R.count("roundtrip_with_escapes");
    if (cur.model.size() >= 8)
      R.count("roundtrip_ge8_members");
    if (cur.model.size() >= 179)
      R.count("roundtrip_179_or_180_members");
    if (header.size() > 4000)
      R.count("roundtrip_header_over_4000_bytes");
    RefParse p = ref_parse(header);
    List viaref;
    std::string unescaped;
    for (auto &m : p.members)
    {
      if (m.tri == kDontCare && (m.why.find("raw-reserved") != std::string::npos || m.why.find("inner-space") != std::string::npos))
        unescaped = m.why;
      if (m.tri != kMustDrop && !m.keys.empty())
        viaref.emplace_back(m.keys[0], m.values[0]);
    }
    if (!unescaped.empty())
      R.violation("inject-escapes-nontoken", unescaped,
                  "header " + vf::show(header, 300) + " carries an unescaped character outside the token set; baggage " +
                      show_list(cur.model));
    else if (viaref != cur.model)
      R.violation("inject-decodes-to-model", diagnose(kPathInject, viaref, cur.model),
                  "header " + vf::show(header, 300) + " decodes (reference codec) to " + show_list(viaref) + " want " +
                      show_list(cur.model));
    else if (p.members.size() == cur.model.size())
    {
      // the ;metadata part travels verbatim (not re-encoded)
      for (size_t i = 0; i < cur.model.size(); ++i)
      {
        size_t sc        = cur.model[i].second.find(';');
        std::string meta = sc == std::string::npos ? "" : cur.model[i].second.substr(sc);
        if (p.members[i].meta != meta)
        {
          R.violation("inject-metadata-verbatim", meta.size() > 1 ? "metadata" : "bare-semicolon",
                      "header " + vf::show(header, 300) + " member " + std::to_string(i) + " carries metadata " +
                          vf::show(p.members[i].meta, 80) + " want " + vf::show(meta, 80));
          break;
        }
      }
    }
  }

  // (2) Extract(Inject(b)) == b
  {
    context::Context in = base_context(marker);
    context::Context out = prop.Extract(car, in);
    car.kill(r.coin());
    List got = entries(*baggage::GetBaggage(out));
    if (!marker_ok(out, marker))
      R.violation("context-other-keys-kept", "roundtrip", "marker value lost from the extracted context");
    if (excl || limits)
      check_members_valid(got, "extract-members-valid", "roundtrip-excluded");
    else if (got != cur.model)
      R.violation("roundtrip", diagnose(kPathRoundtrip, got, cur.model),
                  "Extract(Inject(b)): header " + vf::show(header, 300) + " gave " + show_list(got) + " want " +
                      show_list(cur.model));
    if (cur.model.empty() && out.HasKey(baggage::kBaggageHeader))
      R.violation("context-untouched", "roundtrip-empty-baggage", "extraction of an empty baggage added a baggage to the context");
  }

  // (3) every spelling of the reference encoder is read back
  if (!excl && !cur.model.empty())
  {
    std::string h2;
    for (auto &e : cur.model)
      h2 += (h2.empty() ? "" : (r.chance(1, 6) ? " , " : ",")) + encode_member(e, r);
    bool fits = h2.size() <= 8192 && cur.model.size() <= 180;
    size_t pos = 0;
    while (pos <= h2.size())
    {
      size_t c = h2.find(',', pos);
      size_t n = (c == std::string::npos ? h2.size() : c) - pos;
      if (n > 4090)
        fits = false;
      pos = c == std::string::npos ? h2.size() + 1 : c + 1;
    }
    if (fits)
    {
      Carrier c2;
      c2.put("baggage", h2);
      context::Context in  = base_context(marker);
      context::Context out = prop.Extract(c2, in);
      c2.kill(r.coin());
      List got = entries(*baggage::GetBaggage(out));
      R.count("reference_encoding_extracted");
      if (got != cur.model)
        R.violation("extract-reference-encoding", diagnose_spelling(got, cur.model),
                    "header " + vf::show(h2, 300) + " gave " + show_list(got) + " want " + show_list(cur.model));
    }
  }
}

// ------------------------------------------------------------------------------------------
// one program of Set/Delete/Get/round-trip ops
// ------------------------------------------------------------------------------------------
static void program(uint64_t seed)
{
  auto &R = vf::report();
  Rng r(seed);
  Gen g(r);
  std::vector<St> pool;
  pool.push_back({nostd::shared_ptr<baggage::Baggage>(new baggage::Baggage()), {}});
  size_t nops     = static_cast<size_t>(r.range(1, 60));
  uint64_t chash  = 0;
  bool nontrivial = false;
  std::string trace;
  // some programs first grow: to a dozen or two members, to the 180-member limit of the header, or
  // to values whose members / header reach the 4096 / 8192 byte limits
  enum
  {
    kNone,
    kGrow,
    kMany,
    kLong
  } shape            = kNone;
  size_t grow_target = 0;
  {
    unsigned c = static_cast<unsigned>(r.below(100));
    if (c < 20)
    {
      shape       = kGrow;
      grow_target = static_cast<size_t>(r.range(8, 30));
    }
    else if (c < 23)
    {
      shape                        = kMany;
      static const size_t counts[] = {178, 179, 180, 181, 182};
      grow_target                  = r.pick(counts);
    }
    else if (c < 29)
    {
      shape       = kLong;
      grow_target = static_cast<size_t>(r.range(1, 3));
    }
    if (shape != kNone)
      nops = grow_target + static_cast<size_t>(r.range(2, 12));
  }
  for (size_t op = 0; op < nops; ++op)
  {
    size_t idx    = r.chance(3, 4) ? pool.size() - 1 : static_cast<size_t>(r.below(pool.size()));
    bool growing  = shape != kNone && pool.back().model.size() < grow_target && op < grow_target + 2;
    if (growing)
      idx = pool.size() - 1;
    St cur        = pool[idx];
    unsigned kind = static_cast<unsigned>(r.below(100));
    if (growing)
      kind = 0;
    if (shape == kMany && pool.size() > 4 && !growing)
      pool.erase(pool.begin() + 1, pool.end() - 2);  // keep the re-verification of older states affordable
    if (kind < 50)
    {
      // ---- Set
      std::string k = (!cur.model.empty() && r.chance(1, 3)) ? cur.model[r.below(cur.model.size())].first : g.key();
      std::string v = g.value();
      if (growing)
      {
        k = "g" + std::to_string(cur.model.size()) + r.bytes(static_cast<size_t>(r.range(0, 2)), " =,%+;-_.~ab");
        if (shape == kMany)
          v = r.bytes(static_cast<size_t>(r.range(0, 3)), " =,%+ab") + (r.chance(1, 8) ? ";m" : "");
        else if (shape == kLong)
        {
          // sizes chosen so that encoded members straddle 4096 and the header 8192
          static const size_t lens[] = {600, 1300, 2040, 2700, 4000, 4085, 4090, 4093, 4100};
          v = r.bytes(r.pick(lens), r.chance(2, 3) ? "abcXYZ019-_.~" : "abcxyz019-_.~ ,");
        }
        else
        {
          v = g.value();
          while (!valid_value(v))
            v = g.value();
        }
      }
      bool valid    = valid_key(k) && valid_value(v);
      bool present  = false;
      for (auto &e : cur.model)
        present |= e.first == k;
      auto res = with_views(r, k, v, [&](const nostd::string_view &kk, const nostd::string_view &vv) { return cur.b->Set(kk, vv); });
      List got = entries(*res);
      R.count("op_set");
      std::string d = "Set(" + vf::show(k, 60) + "," + vf::show(v, 60) + ") on " + show_list(cur.model) + " gave " + show_list(got);
      List want;
      if (!valid)
      {
        // outside the statement ("printable keys and values"): only the invariants are judged
        R.count("set_outside_domain_dontcare");
        check_members_valid(got, "members-valid", "set-invalid-input");
        want = got;
        for (auto &e : got)
          if (!valid_key(e.first) || !valid_value(e.second))
            want = cur.model;
      }
      else
      {
        if (present)
          R.count("set_present_key");
        if (v.find(';') != std::string::npos)
          R.count("set_value_with_metadata");
        // the rest keeps its order; where the new member goes is not stated — follow the result
        List rest;
        for (auto &e : cur.model)
          if (e.first != k)
            rest.push_back(e);
        size_t at = 0, hits = 0;
        for (size_t i = 0; i < got.size(); ++i)
          if (got[i].first == k)
          {
            at = i;
            ++hits;
          }
        std::string cls = present ? "key-present" : "key-absent";
        want            = rest;
        if (hits >= 1 && at <= rest.size())
          want.insert(want.begin() + static_cast<long>(at), Entry(k, v));
        else
          want.insert(want.begin(), Entry(k, v));
        if (hits > 1)
          R.violation("set-no-duplicate", cls, d);
        else if (hits == 0)
          R.violation("set-adds-member", cls, d + " want " + show_list(want));
        else if (got != want)
          R.violation("set-result", cls + "-" + entry_class(Entry(k, v)), d + " want " + show_list(want));
        if (at == 0)
          R.count("set_new_member_first");
      }
      if (entries(*cur.b) != cur.model)
        R.violation("original-unchanged", "after-set", "receiver of Set changed: " + d);
      St nxt;
      nxt.model = want;
      if (got == want)
        nxt.b = res;
      else
      {
        nxt.b = rebuild(want);
        if (entries(*nxt.b) != want)
          continue;
      }
      pool.push_back(nxt);
      nontrivial = true;
      chash      = vf::mix(chash, vf::fnv1a(k) ^ vf::fnv1a(v) * 3 ^ 1);
      if (trace.size() < 300)
        trace += "Set(" + vf::show(k, 16) + "," + vf::show(v, 16) + ") ";
    }
    else if (kind < 67)
    {
      // ---- Delete
      std::string k = (!cur.model.empty() && r.chance(3, 5)) ? cur.model[r.below(cur.model.size())].first : g.key();
      if (!cur.model.empty() && r.chance(1, 6))
      {
        k = cur.model[r.below(cur.model.size())].first;  // prefix / extension of a present key
        if (r.coin() && k.size() > 1)
          k.pop_back();
        else
          k += "a";
      }
      List want;
      bool present = false;
      for (auto &e : cur.model)
      {
        if (e.first != k)
          want.push_back(e);
        else
          present = true;
      }
      vf::Buf kb(k);
      auto res = cur.b->Delete(nostd::string_view(kb.data(), kb.size()));
      r.coin() ? kb.scribble() : kb.release();
      List got = entries(*res);
      R.count("op_delete");
      if (present)
        R.count("delete_present_key");
      if (got != want)
        R.violation("delete-result", present ? "key-present" : "key-absent",
                    "Delete(" + vf::show(k, 60) + ") on " + show_list(cur.model) + " gave " + show_list(got) + " want " +
                        show_list(want));
      if (entries(*cur.b) != cur.model)
        R.violation("original-unchanged", "after-delete", "receiver of Delete changed");
      if (got == want)
        pool.push_back({res, want});
      nontrivial = true;
      chash      = vf::mix(chash, vf::fnv1a(k) ^ 2);
      if (trace.size() < 300)
        trace += "Delete(" + vf::show(k, 16) + ") ";
    }
    else if (kind < 78)
    {
      // ---- GetValue
      std::string k = (!cur.model.empty() && r.chance(3, 5)) ? cur.model[r.below(cur.model.size())].first : g.key();
      bool want_found = false;
      std::string want_v;
      for (auto &e : cur.model)
        if (e.first == k)
        {
          want_found = true;
          want_v     = e.second;
          break;
        }
      std::string out = "sentinel";
      vf::Buf kb(k);
      bool found = cur.b->GetValue(nostd::string_view(kb.data(), kb.size()), out);
      kb.release();
      R.count("op_get");
      if (found != want_found || (found && out != want_v))
        R.violation("get-result", want_found ? "key-present" : "key-absent",
                    "GetValue(" + vf::show(k, 60) + ") on " + show_list(cur.model) + " gave " + (found ? "true," : "false,") +
                        vf::show(out) + " want " + (want_found ? "true," : "false,") + vf::show(want_v));
    }
    else
    {
      roundtrip(r, cur);
      nontrivial = true;
    }
    if ((op & 15) == 15)
      for (auto &s : pool)
        if (entries(*s.b) != s.model)
          R.violation("original-unchanged", "later-recheck", "older baggage changed: " + show_list(s.model));
  }
  roundtrip(r, pool.back());
  for (auto &s : pool)
    if (entries(*s.b) != s.model)
      R.violation("original-unchanged", "final-recheck", "older baggage changed: " + show_list(s.model));
  if (nontrivial)
    R.nontrivial(chash);
  if (R.want_sample(3))
    R.sample("program: " + trace);
}

// ------------------------------------------------------------------------------------------
// extraction from one header, judged by the reference parser
// ------------------------------------------------------------------------------------------
static void judge_header(Rng &r, const std::string &header, bool absent = false)
{
  auto &R = vf::report();
  R.count("headers");
  RefParse p = ref_parse(header);
  int64_t marker = static_cast<int64_t>(r.next() >> 1);
  context::Context in = base_context(marker);
  bool prior          = r.chance(1, 4);
  nostd::shared_ptr<baggage::Baggage> prior_b;
  if (prior)
  {
    prior_b = nostd::shared_ptr<baggage::Baggage>(new baggage::Baggage());
    prior_b = prior_b->Set("prior", "1;kept");
    in      = baggage::SetBaggage(in, prior_b);
  }
  baggage::propagation::BaggagePropagator prop;
  Carrier car;
  if (!absent)
    car.put("baggage", header);
  context::Context out = prop.Extract(car, in);
  car.kill(r.coin());
  auto out_b = baggage::GetBaggage(out);
  List got   = entries(*out_b);
  bool same_baggage = prior ? out_b.get() == prior_b.get() : !out.HasKey(baggage::kBaggageHeader);
  std::string hshow = "header(" + std::to_string(header.size()) + ") " + vf::show(header, 240);

  if (!marker_ok(out, marker))
    R.violation("context-other-keys-kept", "extract", "marker value lost from the extracted context; " + hshow);
  if (prior && entries(*baggage::GetBaggage(in)) != List{{"prior", "1;kept"}})
    R.violation("original-unchanged", "input-context", "input context's baggage changed; " + hshow);

  size_t keep = 0, dc = 0, drop = 0;
  std::set<std::string> seen;
  bool dup = false;
  for (auto &m : p.members)
  {
    if (m.tri == kMustDrop)
    {
      ++drop;
      continue;
    }
    m.tri == kMustKeep ? ++keep : ++dc;
    for (auto &k : m.keys)
      if (!seen.insert(k).second && &k == &m.keys[0])
        dup = true;
  }
  R.count("members_must_keep", keep);
  R.count("members_must_drop", drop);
  R.count("members_dontcare", dc);

  const char *pr = prior ? "prior-baggage" : "no-prior-baggage";
  if (p.too_long)
  {
    R.count("headers_over_8192");
    if (!same_baggage)
      R.violation("extract-header-limit", pr, "header of " + std::to_string(header.size()) + " bytes was not ignored; got " + show_list(got));
    return;
  }
  if (same_baggage)
  {
    // nothing was extracted
    R.count("extract_context_untouched");
    for (auto &m : p.members)
      if (m.tri == kMustKeep)
      {
        if (keep > 180 || dup)
          break;  // dropping everything is one reading of the limit / duplicates are not judged
        R.violation("extract-keeps-valid", m.why, "nothing extracted but member " + vf::show(m.keys[0], 40) + " is valid; " + hshow);
        return;
      }
    if (keep == 0)
      R.count("nothing_valid_context_untouched");
    return;
  }
  // the context now carries an extracted baggage
  if (got.empty())
  {
    R.violation("context-untouched", pr, "nothing valid was extracted but the context's baggage was replaced; " + hshow);
    return;
  }
  if (got.size() > 180)
  {
    R.violation("extract-member-limit", "over-180", std::to_string(got.size()) + " members kept; " + hshow);
    return;
  }
  if (prior)
  {
    // whether an extracted baggage replaces or merges with one already in the context is not stated
    R.count("extract_over_prior_baggage_dontcare");
    for (auto &e : got)
    {
      std::string why = explained_by_dropped(p.members, e);
      if (!why.empty())
      {
        R.violation("extract-drops-invalid", why, "kept " + vf::show(e.first, 60) + " = " + vf::show(e.second, 60) + "; " + hshow);
        return;
      }
    }
    check_members_valid(got, "extract-members-valid", "over-prior-baggage");
    return;
  }
  bool subset_only = false;
  if (dup)
  {
    R.count("headers_duplicate_keys_dontcare");
    subset_only = true;
  }
  if (keep + dc > 180)
  {
    R.count("headers_over_180_members");
    subset_only = true;
  }
  // walk the members in header order
  size_t j = 0;
  for (auto &m : p.members)
  {
    if (m.tri == kMustDrop)
    {
      if (j < got.size() && wrongly_kept(m, got[j]) && !explained_by_valid(p.members, got[j]))
      {
        R.violation("extract-drops-invalid", m.why,
                    "kept " + vf::show(got[j].first, 60) + " = " + vf::show(got[j].second, 60) + "; " + hshow);
        return;
      }
      continue;
    }
    if (j < got.size() && matches(m, got[j]))
    {
      ++j;
      if (m.tri == kDontCare)
        R.count("dontcare_member_kept");
      continue;
    }
    if (m.tri == kDontCare)
    {
      R.count("dontcare_member_dropped");
      continue;
    }
    // more than 180 keepable members: which ones make it is only constrained by the limit itself - as long as fewer
    // than 180 were kept nothing justifies dropping a valid member (from seeded change C15-w7-1: members that were
    // rejected used up slots of the limit)
    if (subset_only && !dup && got.size() < 180 && m.tri == kMustKeep)
    {
      R.violation("extract-keeps-valid", "over-180-members:" + std::string(m.why),
                  "member " + vf::show(m.keys[0], 40) + " dropped although only " + std::to_string(got.size()) +
                      " members were kept (limit 180); " + hshow);
      return;
    }
    if (subset_only)
      continue;
    R.violation("extract-keeps-valid", m.why,
                "member " + vf::show(m.keys[0], 40) + " = " + vf::show(m.values[0], 60) + " missing or different at position " +
                    std::to_string(j) + "; got " + show_list(got) + "; " + hshow);
    return;
  }
  if (j < got.size())
  {
    // an entry that no valid member explains
    std::string why = explained_by_dropped(p.members, got[j]);
    if (!why.empty())
    {
      R.violation("extract-drops-invalid", why, "kept " + vf::show(got[j].first, 60) + " = " + vf::show(got[j].second, 60) + "; " + hshow);
      return;
    }
    bool meta_np = !valid_value(got[j].second);
    R.violation("extract-result", meta_np ? "unexplained-entry-nonprintable" : "unexplained-entry",
                "entry " + vf::show(got[j].first, 60) + " = " + vf::show(got[j].second, 60) + " at position " + std::to_string(j) +
                    " is not a valid member of the header; " + hshow);
    return;
  }
  if (subset_only)
  {
    check_members_valid(got, "extract-members-valid", "subset-only");
    if (keep + dc > 180)
      R.count(got.size() == 180 ? "over_180_kept_first_180" : "over_180_kept_fewer");
  }
  else
    R.count("headers_judged_exactly");
  // Set / Delete on the extracted baggage, which - unlike one built through Set - may bind a key more than once
  // (extraction keeps every valid member): "Set replaces an existing key, Delete removes it, and neither changes
  // the baggage they were called on" (from seeded change C15-w5-1)
  {
    const Entry pick  = got[r.below(got.size())];
    const std::string k = pick.first;
    size_t bindings   = 0;
    List rest;
    for (auto &e : got)
      if (e.first == k)
        ++bindings;
      else
        rest.push_back(e);
    std::string cls = bindings > 1 ? "extracted:repeated-key" : "extracted:single-binding";
    R.count(bindings > 1 ? "ops_on_extracted_repeated_key" : "ops_on_extracted_single_binding");
    auto sb   = out_b->Set(k, "nv;m=1");
    List sgot = entries(*sb);
    size_t hits = 0;
    List srest;
    for (auto &e : sgot)
      if (e.first == k)
      {
        ++hits;
        if (e.second != "nv;m=1")
          R.violation("set-result", cls, "Set(" + vf::show(k, 60) + ") on the extracted baggage left value " + vf::show(e.second, 60) + "; " + hshow);
      }
      else
        srest.push_back(e);
    if (hits != 1)
      R.violation(hits == 0 ? "set-adds-member" : "set-no-duplicate", cls,
                  "Set(" + vf::show(k, 60) + ") on the extracted " + show_list(got) + " gave " + show_list(sgot) + "; " + hshow);
    else if (srest != rest)
      R.violation("set-result", cls + ":others", "Set(" + vf::show(k, 60) + ") on the extracted " + show_list(got) + " gave " + show_list(sgot) + "; " + hshow);
    auto db   = out_b->Delete(k);
    List dgot = entries(*db);
    if (dgot != rest)
      R.violation("delete-result", cls, "Delete(" + vf::show(k, 60) + ") on the extracted " + show_list(got) + " gave " + show_list(dgot) + "; " + hshow);
    if (entries(*out_b) != got)
      R.violation("original-unchanged", "extracted-after-set-delete", hshow);
  }
}

static std::string simple_member(Rng &r, size_t i)
{
  return "k" + std::to_string(i) + "=" + r.bytes(static_cast<size_t>(r.range(0, 3)), "abc019-_.~");
}

// one generated member; the reference parser decides what it is
static std::string gen_member(Rng &r, size_t i)
{
  static const std::string tok = "abcXYZ019-_.~";
  std::string k = "k" + std::to_string(i) + r.bytes(static_cast<size_t>(r.range(0, 3)), tok);
  std::string v = r.bytes(static_cast<size_t>(r.range(0, 6)), tok);
  unsigned c    = static_cast<unsigned>(r.below(100));
  if (c < 30)
    return k + "=" + v;
  if (c < 42)
  {
    // valid escapes of printable characters, both hex cases, '+'
    Entry e(k + r.bytes(1, " =,;%+/"), v + r.bytes(static_cast<size_t>(r.range(1, 3)), " =,%+/:\"ab"));
    return encode_member(e, r);
  }
  if (c < 50)
    return k + "=" + v + ";" + r.bytes(static_cast<size_t>(r.range(0, 8)), "abc019=;-_ %+/:");  // metadata
  if (c < 56)
  {
    // OWS around the member, the '=' and before ';'
    static const char *ws[] = {" ", "\t", "  ", " \t"};
    return std::string(r.pick(ws)) + k + (r.coin() ? r.pick(ws) : "") + "=" + (r.coin() ? r.pick(ws) : "") + v +
           (r.coin() ? std::string(r.pick(ws)) + ";m=1" : "") + r.pick(ws);
  }
  if (c < 63)
  {
    // broken escape somewhere
    static const char *bad[] = {"%", "%4", "%g1", "%1g", "%%41", "%4%41", "% 41", "%-1", "%+1"};
    std::string b = r.pick(bad);
    switch (r.below(4))
    {
      case 0:
        return k + b + "=" + v;
      case 1:
        return k + "=" + v + b;
      case 2:
        return k + "=" + b + v;
      default:
        return k + "=" + v + b + ";m";
    }
  }
  if (c < 69)
  {
    // escape of a non-printable byte
    static const char *np[] = {"%00", "%1f", "%7f", "%80", "%ff", "%0a", "%09"};
    return r.coin() ? k + r.pick(np) + "=" + v : k + "=" + v + r.pick(np);
  }
  if (c < 74)
  {
    // raw non-printable byte
    std::string b(1, static_cast<char>(r.coin() ? 1 + r.below(0x1f) : 0x7f + r.below(0x81)));
    return r.coin() ? k + b + "x=" + v : k + "=" + v + b + "x";
  }
  if (c < 80)
  {
    // printable but unescaped reserved character: don't-care
    std::string b(1, "/:\"\\!#$&'()*<>?@[]^`{|}"[r.below(23)]);
    return r.coin() ? k + b + "=" + v : k + "=" + v + b + v;
  }
  if (c < 83)
    return k + "=" + v + " " + v + "x";  // inner blank
  if (c < 86)
    return k;  // no '='
  if (c < 89)
    return "=" + v;  // empty key
  if (c < 91)
    return r.coin() ? "" : " ";  // empty member
  if (c < 93)
    return k + "=" + v + "=" + v;  // second '='
  if (c < 95)
    return k + "=" + v + (r.coin() ? "\r" : "\n");  // control white space at the edge: don't-care
  if (c < 98)
  {
    // metadata with a non-printable byte
    std::string b(1, static_cast<char>(r.coin() ? r.below(0x20) : 0x7f + r.below(0x81)));
    return k + "=" + v + ";m" + b + "x";
  }
  return " " + k + " = " + v + " ; p = q ";
}

static std::string padded_member(Rng &r, const std::string &key, size_t total)
{
  // a member of exactly `total` bytes (key=value), spelled in one of several ways
  std::string head = key + "=";
  size_t room      = total > head.size() ? total - head.size() : 0;
  switch (r.below(4))
  {
    case 0:
      return head + std::string(room, 'a');
    case 1:
    {
      // escapes: raw size != decoded size
      std::string v;
      while (v.size() + 3 <= room && v.size() < 600)
        v += "%2C";
      return head + v + std::string(room - v.size(), 'b');
    }
    case 2:
    {
      // short value, long metadata
      if (room < 4)
        return head + std::string(room, 'a');
      return head + "v;" + std::string(room - 2, 'm');
    }
    default:
    {
      std::string v = r.bytes(room, "abcXYZ019-_.~+");
      return head + v;
    }
  }
}

static void header_case(uint64_t seed)
{
  auto &R = vf::report();
  Rng r(seed);
  unsigned kind = static_cast<unsigned>(r.below(100));
  std::string header;
  if (kind < 10)
  {
    // ---- arbitrary bytes
    R.count("headers_random_bytes");
    switch (r.below(3))
    {
      case 0:
        header = r.anybytes(static_cast<size_t>(r.range(0, 80)));
        break;
      case 1:
        header = r.bytes(static_cast<size_t>(r.range(0, 80)), "ab=,;%+ \t4fF0~-");
        break;
      default:
        header = r.bytes(static_cast<size_t>(r.range(0, 40)), "k=v,;%41 ") + r.anybytes(static_cast<size_t>(r.range(0, 6))) +
                 r.bytes(static_cast<size_t>(r.range(0, 20)), "k=v,;%41 ");
    }
    if (r.chance(1, 20))
    {
      // not even a header
      judge_header(r, "", true);
      R.count("headers_absent");
    }
  }
  else if (kind < 18)
  {
    // ---- every truncation of a header rich in escapes
    std::string full;
    size_t n = static_cast<size_t>(r.range(1, 4));
    for (size_t i = 0; i < n; ++i)
    {
      Entry e("k" + std::to_string(i) + r.bytes(1, " %=,;+a"), r.bytes(static_cast<size_t>(r.range(1, 5)), " %=,+/ab~") + (r.coin() ? ";m=%zz" : ""));
      full += (i ? "," : "") + encode_member(e, r);
    }
    for (size_t cut = 0; cut <= full.size(); ++cut)
    {
      std::string h = full.substr(0, cut);
      R.count("headers_truncated");
      if (!h.empty() && (h.back() == '%' || (h.size() >= 2 && h[h.size() - 2] == '%')))
        R.count("headers_truncated_inside_escape");
      judge_header(r, h);
    }
    R.nontrivial(vf::fnv1a(full));
    return;
  }
  else if (kind < 30)
  {
    // ---- around the 180-member limit
    static const size_t counts[] = {179, 180, 181, 182, 200, 360};
    size_t n                     = r.pick(counts);
    bool all_simple              = r.chance(2, 3);
    for (size_t i = 0; i < n; ++i)
    {
      header += (i ? "," : "") + (all_simple || r.chance(9, 10) ? simple_member(r, i) : gen_member(r, i));
      if (r.chance(1, 60))
        header += ",";  // empty member
    }
    R.count("headers_members_" + std::string(n <= 181 ? std::to_string(n) : "over_181"));
  }
  else if (kind < 42)
  {
    // ---- around the 4096-byte member limit
    static const size_t sizes[] = {4095, 4096, 4097, 4098, 4200};
    size_t sz                   = r.pick(sizes);
    size_t before = static_cast<size_t>(r.range(0, 3)), after = static_cast<size_t>(r.range(0, 3));
    for (size_t i = 0; i < before; ++i)
      header += simple_member(r, i) + ",";
    header += padded_member(r, "big", sz);
    for (size_t i = 0; i < after; ++i)
      header += "," + simple_member(r, 10 + i);
    R.count("headers_member_" + std::string(sz <= 4098 ? std::to_string(sz) : "over_4098"));
  }
  else if (kind < 54)
  {
    // ---- around the 8192-byte header limit
    static const size_t totals[] = {8191, 8192, 8193, 8194, 9000};
    size_t total                 = r.pick(totals);
    size_t i                     = 0;
    while (header.size() + 4200 < total)
    {
      header += padded_member(r, "m" + std::to_string(i), static_cast<size_t>(r.range(500, 3000))) + ",";
      ++i;
    }
    size_t rest = total - header.size();
    if (rest > 4000)
    {
      header += padded_member(r, "m" + std::to_string(i), rest / 2) + ",";
      ++i;
      rest = total - header.size();
    }
    if (r.chance(1, 5) && rest > 10)
    {
      // the last bytes are optional white space
      header += padded_member(r, "z", rest - 3) + "   ";
    }
    else
      header += padded_member(r, "z", rest);
    R.count("headers_size_" + std::string(total <= 8193 ? std::to_string(total) : "over_8193"));
  }
  else
  {
    // ---- a short list of mixed members
    size_t n = static_cast<size_t>(r.range(0, 12));
    for (size_t i = 0; i < n; ++i)
    {
      std::string m = r.chance(1, 12) && i ? "k0=dup" : gen_member(r, i);
      header += (i ? (r.chance(1, 8) ? " , " : ",") : "") + m;
    }
    R.count("headers_mixed");
  }
  judge_header(r, header);
  R.nontrivial(vf::fnv1a(header));
  if (R.want_sample(6) && r.chance(1, 40) && header.size() < 200)
    R.sample("header: " + vf::show(header, 160));
}

// Directed: baggage whose injected header is exactly at / just below the 8192-byte header limit (from seeded change
// C15-w5-2).  Built through Set from unreserved characters only (so the header length is known exactly), every member
// below 4096 bytes: extraction must rebuild the same entries - the limit is "honoured", not tightened on the inject side.
static void boundary_inject_case(uint64_t seed)
{
  auto &R = vf::report();
  Rng r(seed);
  size_t total = 8192 - static_cast<size_t>(r.below(3));  // 8192, 8191, 8190
  size_t n     = static_cast<size_t>(r.range(3, 6));
  // n members "k<i>=aaaa..." joined by n-1 commas
  size_t body = total - (n - 1);
  std::vector<size_t> len(n, body / n);
  len[0] += body - (body / n) * n;
  List model;
  nostd::shared_ptr<baggage::Baggage> b(new baggage::Baggage());
  for (size_t i = 0; i < n; ++i)
  {
    std::string k = "k" + std::to_string(i);
    std::string v(len[i] - k.size() - 1, static_cast<char>('a' + i));
    b = b->Set(k, v);
    model.insert(model.begin(), Entry(k, v));
  }
  if (entries(*b) != model)
    model = entries(*b);  // where Set puts a new member is not stated: follow the baggage
  int64_t marker       = static_cast<int64_t>(r.next() >> 1);
  context::Context base = base_context(marker);
  context::Context ctx  = baggage::SetBaggage(base, b);
  baggage::propagation::BaggagePropagator prop;
  Carrier car;
  prop.Inject(car, ctx);
  std::string header = car.get("baggage");
  std::string cls    = "header-" + std::to_string(total) + "-bytes";
  R.count("boundary_injects");
  if (header.size() != total)
  {
    if (!car.has("baggage") || header.empty())
      R.violation("roundtrip-result", cls + ":not-injected",
                  "a Set-built baggage whose header is " + std::to_string(total) + " bytes (limit 8192) was not injected");
    else
      R.count("boundary_inject_other_length");  // a different but valid spelling: judged by the extraction below
  }
  context::Context out = prop.Extract(car, base);
  car.kill(r.coin());
  List got = entries(*baggage::GetBaggage(out));
  if (got != model)
    R.violation("roundtrip-result", cls,
                "baggage of " + std::to_string(n) + " members, injected header " + std::to_string(header.size()) +
                    " bytes, extracted " + std::to_string(got.size()) + " members");
}

// ------------------------------------------------------------------------------------------
// composite propagators: every ordered subset of size <= 4 of the five built-in propagators
// ------------------------------------------------------------------------------------------
enum Part
{
  kW3C = 0,
  kB3Single,
  kB3Multi,
  kJaeger,
  kBaggage,
  kNumParts
};
static const char *kPartNames[] = {"w3c", "b3", "b3multi", "jaeger", "baggage"};

static std::unique_ptr<context::propagation::TextMapPropagator> make_part(int p)
{
  using P = std::unique_ptr<context::propagation::TextMapPropagator>;
  switch (p)
  {
    case kW3C:
      return P(new trace_api::propagation::HttpTraceContext());
    case kB3Single:
      return P(new trace_api::propagation::B3Propagator());
    case kB3Multi:
      return P(new trace_api::propagation::B3PropagatorMultiHeader());
    case kJaeger:
      return P(new trace_api::propagation::JaegerPropagator());
    default:
      return P(new baggage::propagation::BaggagePropagator());
  }
}

static std::vector<std::vector<int>> &ordered_subsets()
{
  static std::vector<std::vector<int>> all;
  if (all.empty())
  {
    std::vector<int> cur;
    std::function<void()> rec = [&]() {
      all.push_back(cur);
      if (cur.size() == 4)
        return;
      for (int p = 0; p < kNumParts; ++p)
      {
        if (std::find(cur.begin(), cur.end(), p) != cur.end())
          continue;
        cur.push_back(p);
        rec();
        cur.pop_back();
      }
    };
    rec();
  }
  return all;
}

static std::string hexlow(const uint8_t *p, size_t n)
{
  return vf::hexs(p, n);
}

static std::string fingerprint(const context::Context &c)
{
  std::string s;
  auto span = c.GetValue(trace_api::kSpanKey);
  if (nostd::holds_alternative<nostd::shared_ptr<trace_api::Span>>(span))
  {
    auto sc = nostd::get<nostd::shared_ptr<trace_api::Span>>(span)->GetContext();
    s += "span{" + hexlow(sc.trace_id().Id().data(), 16) + ":" + hexlow(sc.span_id().Id().data(), 8) + ":" +
         std::to_string(sc.trace_flags().flags()) + ":" + (sc.IsRemote() ? "remote" : "local") + ":" +
         sc.trace_state()->ToHeader() + "}";
  }
  else
    s += "span{-}";
  if (c.HasKey(baggage::kBaggageHeader))
    s += " baggage" + show_list(entries(*baggage::GetBaggage(c)));
  else
    s += " baggage{-}";
  auto m = c.GetValue(kMarker);
  s += nostd::holds_alternative<int64_t>(m) ? " marker=" + std::to_string(nostd::get<int64_t>(m)) : " marker{-}";
  return s;
}

static context::Context random_context(Rng &r, bool want_span, bool want_baggage)
{
  context::Context c = base_context(static_cast<int64_t>(r.below(1000)));
  if (want_span)
  {
    uint8_t tid[16], sid[8];
    for (auto &b : tid)
      b = static_cast<uint8_t>(1 + r.below(255));
    for (auto &b : sid)
      b = static_cast<uint8_t>(1 + r.below(255));
    auto ts = r.coin() ? trace_api::TraceState::FromHeader("vk=1,other=x") : trace_api::TraceState::GetDefault();
    trace_api::SpanContext sc(trace_api::TraceId(tid), trace_api::SpanId(sid), trace_api::TraceFlags(static_cast<uint8_t>(r.below(2))),
                              r.coin(), ts);
    nostd::shared_ptr<trace_api::Span> sp(new trace_api::DefaultSpan(sc));
    c = trace_api::SetSpan(c, sp);
  }
  if (want_baggage)
  {
    nostd::shared_ptr<baggage::Baggage> b(new baggage::Baggage());
    size_t n = static_cast<size_t>(r.range(1, 3));
    for (size_t i = 0; i < n; ++i)
      b = b->Set("bk" + std::to_string(i) + r.bytes(1, " %=a"), r.bytes(static_cast<size_t>(r.range(0, 4)), "ab ,%+") + (r.coin() ? ";m" : ""));
    c = baggage::SetBaggage(c, b);
  }
  return c;
}

static std::string rhex(Rng &r, size_t n)
{
  std::string s = r.bytes(n, "0123456789abcdef");
  if (s.find_first_not_of('0') == std::string::npos)
    s[0] = '1';
  return s;
}

static void fill_carrier(Rng &r, Carrier &c, std::string &desc)
{
  // each format present (valid, with its own ids), invalid, or absent
  auto state = [&]() { return static_cast<int>(r.below(6)); };  // 0 absent, 1 invalid, else valid
  int s;
  if ((s = state()))
  {
    c.put("traceparent", s == 1 ? "00-zz" : "00-" + rhex(r, 32) + "-" + rhex(r, 16) + "-0" + std::to_string(r.below(2)));
    if (r.coin())
      c.put("tracestate", "w3c=yes");
    desc += s == 1 ? " w3c:bad" : " w3c:ok";
  }
  if ((s = state()))
  {
    c.put("b3", s == 1 ? "nonsense" : rhex(r, 32) + "-" + rhex(r, 16) + "-" + std::to_string(r.below(2)));
    desc += s == 1 ? " b3:bad" : " b3:ok";
  }
  if ((s = state()))
  {
    c.put("X-B3-TraceId", s == 1 ? "xyz" : rhex(r, 32));
    c.put("X-B3-SpanId", rhex(r, 16));
    c.put("X-B3-Sampled", std::to_string(r.below(2)));
    desc += s == 1 ? " b3multi:bad" : " b3multi:ok";
  }
  if ((s = state()))
  {
    c.put("uber-trace-id", s == 1 ? "1:2" : rhex(r, 32) + ":" + rhex(r, 16) + ":0:0" + std::to_string(r.below(2)));
    desc += s == 1 ? " jaeger:bad" : " jaeger:ok";
  }
  if ((s = state()))
  {
    c.put("baggage", s == 1 ? "%zz=1,novalue" : "ck=" + r.bytes(3, "abc") + ",c%20k=v+w;meta");
    desc += s == 1 ? " baggage:bad" : " baggage:ok";
  }
}

static void composite_case(uint64_t seed, size_t subset_index)
{
  auto &R = vf::report();
  Rng r(seed);
  const std::vector<int> &subset = ordered_subsets()[subset_index];
  std::string name               = "[";
  for (int p : subset)
    name += std::string(name.size() > 1 ? "," : "") + kPartNames[p];
  name += "]";
  std::string cls = "size-" + std::to_string(subset.size());
  R.count("composite_cases");
  R.signature(vf::fnv1a(name));

  std::vector<std::unique_ptr<context::propagation::TextMapPropagator>> parts, hand;
  for (int p : subset)
  {
    parts.push_back(make_part(p));
    hand.push_back(make_part(p));
  }
  nostd::shared_ptr<context::propagation::TextMapPropagator> composite(
      new context::propagation::CompositePropagator(std::move(parts)));
  // half of the cases reach the composite through the global registry
  bool via_global = r.coin();
  nostd::shared_ptr<context::propagation::TextMapPropagator> use = composite;
  if (via_global)
  {
    context::propagation::GlobalTextMapPropagator::SetGlobalPropagator(composite);
    use = context::propagation::GlobalTextMapPropagator::GetGlobalPropagator();
    if (use.get() != composite.get())
      R.violation("global-propagator-roundtrip", "set-get", "GetGlobalPropagator did not return the propagator set");
    R.count("composite_via_global");
  }

  // ---- Inject
  {
    context::Context ctx = random_context(r, r.chance(5, 6), r.chance(5, 6));
    std::string before   = fingerprint(ctx);
    Carrier c1, c2;
    use->Inject(c1, ctx);
    for (auto &p : hand)
      p->Inject(c2, ctx);
    auto m1 = c1.snapshot(), m2 = c2.snapshot();
    if (m1 != m2)
    {
      std::string d = "composite " + name + " context " + before + ": composite wrote {";
      for (auto &e : m1)
        d += e.first + ": " + vf::show(e.second, 80) + "; ";
      d += "} parts one by one wrote {";
      for (auto &e : m2)
        d += e.first + ": " + vf::show(e.second, 80) + "; ";
      R.violation("composite-inject-equals-parts", cls, d + "}");
    }
    if (!m2.empty())
      R.count("composite_inject_nonempty");
    if (fingerprint(ctx) != before)
      R.violation("original-unchanged", "composite-inject", "context changed by Inject");
  }

  // ---- Extract
  {
    Carrier car;
    std::string desc;
    fill_carrier(r, car, desc);
    context::Context ctx0 = random_context(r, r.chance(1, 3), r.chance(1, 3));
    std::string before    = fingerprint(ctx0);
    context::Context got  = use->Extract(car, ctx0);
    context::Context want = ctx0;
    context::Context last = ctx0;  // what "every part from the original context" would give
    for (auto &p : hand)
    {
      context::Context tmp = p->Extract(car, want);
      want                 = tmp;
      last                 = p->Extract(car, ctx0);
    }
    car.kill(r.coin());
    std::string fg = fingerprint(got), fw = fingerprint(want);
    if (fg != fw)
      R.violation("composite-extract-threads-context", cls,
                  "composite " + name + " carrier{" + desc + " } start " + before + ": composite gave " + fg +
                      " parts threaded by hand gave " + fw);
    if (fw != fingerprint(last))
      R.count("composite_extract_threading_matters");
    if (fw != before)
      R.count("composite_extract_changed_context");
    if (fingerprint(ctx0) != before)
      R.violation("original-unchanged", "composite-extract", "input context changed by Extract");
    if (subset.empty() && !(got == ctx0))
      R.violation("composite-extract-threads-context", "size-0-identity", "empty composite did not return the context it was given");
  }
  if (via_global)
    context::propagation::GlobalTextMapPropagator::SetGlobalPropagator(
        nostd::shared_ptr<context::propagation::TextMapPropagator>(new context::propagation::NoOpPropagator()));
  if (R.want_sample(8) && subset.size() == 4 && r.chance(1, 30))
    R.sample("composite " + name);
}

int main(int argc, char **argv)
{
  auto &R = vf::report();
  R.init("C15", argc, argv);
  uint64_t headers_per_case    = static_cast<uint64_t>(R.opt.param("headers_per_case", 4));
  uint64_t composites_per_case = static_cast<uint64_t>(R.opt.param("composites_per_case", 2));
  size_t nsub                  = ordered_subsets().size();  // 206
  R.run_cases([&](uint64_t i) {
    program(R.case_seed(i));
    for (uint64_t j = 0; j < headers_per_case; ++j)
      header_case(vf::mix(R.case_seed(i), 1000 + j));
    if (i % 8 == 0)
      boundary_inject_case(vf::mix(R.case_seed(i), 31337));
    for (uint64_t j = 0; j < composites_per_case; ++j)
    {
      size_t idx = static_cast<size_t>((i * composites_per_case + j) % nsub);
      if (i * composites_per_case + j < nsub)
        R.count("composite_subsets_enumerated");  // first complete pass over all ordered subsets
      composite_case(vf::mix(R.case_seed(i), 5000 + j), idx);
    }
  });
  return R.finish();
}
